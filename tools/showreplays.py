#!/venv/bin/python
import json,sys,glob
sys.path.insert(0,'/verif')
from hgmc import spec as S
for f in sorted(glob.glob('/verif/replays/%s/*.json'%sys.argv[1])):
    r=json.load(open(f)); a=r['args']
    print(r['sig'])
    sp=a.get('spec')
    if sp: print('    tree:', S.sid(sp))
    fs=S.fields(sp) if sp else set()
    def comp(x):
        if isinstance(x,dict) and 'x' in x and 'y' in x: return {k:v for k,v in x.items() if k in fs or k=='fail'}
        if isinstance(x,list): return [comp(i) for i in x]
        return x
    for k,v in a.items():
        if k!='spec': print('    %s: %s'%(k, json.dumps(comp(v))[:400]))
    print('    detail:', json.dumps({k:v for k,v in r['detail'].items() if k!='what'})[:600])
