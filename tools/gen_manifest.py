#!/venv/bin/python
"""Regenerate MANIFEST.json from the property modules present under hgmc/props (keeps it valid at all times)."""
import json
import os

HERE = os.path.dirname(os.path.dirname(os.path.abspath(__file__)))

TEXT = {
    "C01": ("model_checking", "§3 C01",
            "explicit-state closure check on the real objects: every pair/triple of the states reachable by <=n fills "
            "is merged in both orders/groupings, plus every k-chunk partition x reduction schedule of every stream, "
            "against the exact-rational multiset reference",
            "bounded exhaustive state exploration (reachable-set closure + schedule enumeration)"),
    "C02": ("model_checking", "§3 C02",
            "every fill sequence up to length n over each tree's critical-value alphabet, reference comparison after "
            "every step",
            "bounded exhaustive sequence enumeration vs exact-rational reference model"),
    "C03": ("model_checking", "§3 C03",
            "every batch (length 0..n) x weight mode x split into successive fill.numpy calls, differential against "
            "row-wise fill on a twin tree",
            "bounded exhaustive input/split enumeration, differential oracle"),
    "C04": ("model_checking", "§3 C04",
            "every reachable state (fill,+,*,copy histories) round-tripped through JSON (dict, string, file) and used in "
            "further algebra against the original",
            "explicit-state history exploration with round-trip + interchangeability oracle"),
    "C05": ("model_checking", "§3 C05",
            "BFS over operation histories on a pool of aggregators with the bookkeeping invariant on every state, plus "
            "an exhaustive configuration x ulp-neighbourhood probe sweep",
            "explicit-state BFS with invariant checking; exhaustive configuration sweep"),
    "C06": ("model_checking", "§3 C06",
            "every pure operation on every reachable operand pair followed by every mutating event on result/operands, "
            "observable state re-read after each",
            "explicit-state exploration of derive-then-mutate histories"),
    "C07": ("model_checking", "§3 C07",
            "every ordered pair of reachable states merged in place on fresh objects, compared with the pure merge and the "
            "reference union, followed by continuations filling either side and a second merge",
            "bounded exhaustive pair closure over reachable states with continuation histories"),
    "C08": ("model_checking", "§3 C08",
            "every reachable state x every factor, compared with refilling with scaled weights; scaling laws over factor "
            "pairs; continuations on the scaled object",
            "bounded exhaustive state x factor exploration vs reference"),
    "C09": ("model_checking", "§3 C09",
            "== evaluated on all pairs of reachable states and on structural neighbours; must imply identical content",
            "bounded exhaustive pair closure; soundness oracle for =="),
    "C10": ("model_checking", "§3 C10",
            "every (tree, structural neighbour / foreign type) pair in all small reachable states, both orders, + and +=; "
            "must raise and leave both operands' object graphs untouched",
            "bounded exhaustive pair enumeration with object-graph digest oracle"),
    "C11": ("model_checking", "§3 C11",
            "pickle clones taken in every reachable state for every quantity kind, followed by every continuation of fills "
            "on clone and original",
            "explicit-state history exploration with clone/original bisimulation oracle"),
    "C12": ("fault_enumeration", "§3 C12",
            "every stream x every failing node x both failure modes x every subset of failing positions on single-path "
            "trees; state before/after each failing fill and final aggregate vs reference of survivors",
            "exhaustive fault-point enumeration (deviation-bounded, iterated 0,1,2,.. failures)"),
    "C13": ("exploration", "§3 C13",
            "every configuration x fill set x (low,high) query pair x xvalue from the probe set; structural and semantic "
            "consistency of the derived views",
            "exhaustive configuration x query enumeration"),
    "C14": ("exploration", "§3 C14",
            "every dataframe over the row menu x feature list x binning mode x row partition; make_histograms vs direct "
            "fill and vs sum of chunks",
            "exhaustive enumeration of frames, features, binnings and partitions"),
    "C15": ("fault_enumeration", "§3 C15",
            "every single-point mutation at every position of every valid document; fromJson must raise whenever the "
            "format reference rejects",
            "exhaustive single-point mutation of serialised documents vs a format validator"),
    "C16": ("model_checking", "§3 C16",
            "every pair of positions sharing one object in every tree, fill/fill.numpy on first and later calls",
            "exhaustive enumeration of shared-node placements and fill histories"),
    "C17": ("exploration", "§3 C17",
            "every wrapper word up to length 4, every call sequence up to length 4 over the argument menu, every "
            "expression of the grammar on every record representation",
            "exhaustive enumeration of wrapper orders, call sequences and expressions"),
}

NOTE = ("trusted base: CPython, numpy/pandas as installed, the reference semantics in hgmc/refmodel.py, the harness; "
        "holds within the stated tree-depth / sequence-length / alphabet bounds only")


def main():
    props = sorted(TEXT)
    have = [p for p in props if os.path.exists(os.path.join(HERE, "hgmc", "props", p.lower() + ".py"))]
    checks = []
    for p in have:
        cat, ref, text, tech = TEXT[p]
        checks.append({
            "property_id": p,
            "quick_cmd": "./check %s --tier quick" % p,
            "thorough_cmd": "./check %s --tier thorough" % p,
            "evidence_file": "/verif/evidence/%s.json" % p,
            "replay_cmd_template": "./check --replay {path}",
            "engine": "hgmc",
            "level_claimed": {"category": cat, "text": text, "design_ref": ref},
            "level_note": NOTE,
            "technique": tech,
        })
    na = [{"property_id": p, "reason": "check not built yet in this round (planned, see DESIGN.md §7); not claimed"}
          for p in props if p not in have]
    man = {
        "version": 1,
        "setup_cmd": "/venv/bin/python -c \"import sys; sys.path.insert(0,'/verif'); import hgmc; hgmc.bind_repo(); print('hgmc ok')\"",
        "hooks": {
            "guard": "HISTOGRAMMAR_VERIF",
            "enable": "no source hooks are used; checks import /repo's working tree directly",
            "baseline_off_cmd": "cd /repo && /venv/bin/python -m pytest -ra -q -p no:cacheprovider --timeout=900 --continue-on-collection-errors",
            "source_commits": [],
            "add_only": True,
        },
        "engines": [{"name": "hgmc", "path": "/verif/hgmc", "serves_properties": have,
                     "kind_free_text": "hand-written explicit-state / bounded-exhaustive explorer driving the real "
                                       "histogrammar objects, exact-rational multiset reference model as oracle"}],
        "checks": checks,
        "not_applicable": na,
        "notes": "All checks: cwd=/verif, honour VERIF_SEED (shard start order only) and VERIF_TIER; evidence rewritten per run.",
    }
    with open(os.path.join(HERE, "MANIFEST.json"), "w") as f:
        json.dump(man, f, indent=1)
    print("MANIFEST.json: %d checks, %d not claimed" % (len(checks), len(na)))


if __name__ == "__main__":
    main()
