#!/bin/bash
# seed_matrix.sh [tier] [id ...] — run every seeded change under /verif/seeded against its own property's check
# (apply to /repo, ./check, git reset --hard) and rewrite seeded/RESULTS.md. Refuses to run if /repo is dirty.
cd /verif || exit 2
TIER=${1:-quick}; shift
IDS="$@"; [ -z "$IDS" ] && IDS=$(ls seeded | grep -E '^C[0-9]+-' | sort)
OUT=seeded/RESULTS.md
{
  echo "# Seeded changes vs. checks ($(date -u +%Y-%m-%dT%H:%MZ), /repo $(git -C /repo rev-parse --short HEAD), /verif $(git rev-parse --short HEAD), tier $TIER)"
  echo
  echo "| id | own-property check | first violation signature |"
  echo "|---|---|---|"
} > $OUT.tmp
rc=0
for id in $IDS; do
  p=${id%%-*}
  # a few changes are, by their nature, decided by a neighbouring property's check (meta.json: detected_by)
  alt=$(/venv/bin/python -c "import json;print(json.load(open('/verif/seeded/$id/meta.json')).get('detected_by',''))" 2>/dev/null)
  [ -n "$alt" ] && p=$alt
  line=$(tools/seedrun.py /verif/seeded/$id/patch.diff $p --tier $TIER | tail -1)
  res=$(echo "$line" | awk '{print $1}')
  sig=$(echo "$line" | sed -n 's/.*first: sig=//p' | cut -c1-160)
  [ "$res" != "DETECTED" ] && rc=1
  echo "| $id | $res (by $p) | \`$sig\` |" >> $OUT.tmp
  echo "$id $res"
done
mv $OUT.tmp $OUT
exit $rc
