#!/bin/bash
# recheck_seeds.sh — after new fix: commits, re-confirm that every stored seeded change still applies to /repo HEAD (plain or
# 3-way) and that its demonstration still fails with it and passes without it (scratch worktrees; /repo is not touched).
one() {
  id=$1; WT=/var/tmp/rs_$id
  git -C /repo worktree add --detach $WT HEAD -q 2>/dev/null || { echo "$id WORKTREE-ERROR"; return; }
  cd $WT
  if git apply /verif/seeded/$id/patch.diff 2>/dev/null; then how=plain
  elif git apply --3way /verif/seeded/$id/patch.diff >/dev/null 2>&1; then git reset -q; how=3way
  else echo "$id DOES-NOT-APPLY"; cd /; git -C /repo worktree remove --force $WT; return; fi
  /venv/bin/python /verif/seeded/$id/demo.py >/dev/null 2>&1; w=$?
  git checkout -q -- .
  /venv/bin/python /verif/seeded/$id/demo.py >/dev/null 2>&1; wo=$?
  cd /; git -C /repo worktree remove --force $WT
  if [ "$w" != "0" ] && [ "$wo" = "0" ]; then echo "$id ok ($how)"; else echo "$id DEMO with=$w without=$wo ($how)"; fi
}
export -f one
ls /verif/seeded | grep -E '^C[0-9]+-' | xargs -P 8 -I{} bash -c "one {}"
