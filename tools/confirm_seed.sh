#!/bin/bash
# confirm_seed.sh <Cxx> <A|B>
# Independently confirm a seeded change in a scratch worktree of /repo's HEAD:
#  - the patch applies, - the demo passes without it and fails with it, - the pinned test suite still has its 79 passes.
# Writes /tmp/seed_out/<Cxx>/<X>.confirm.json and removes the worktree.
set -u
P=$1; X=$2
SRC=${SEEDSRC:-/tmp/seed_out}/$P
WT=/var/tmp/cf_${P}_${X}_$$
OUT=$SRC/$X.confirm.json
PATCH=$SRC/$X.patch; [ -s $SRC/$X.rebased.patch ] && PATCH=$SRC/$X.rebased.patch
DEMO=$SRC/${X}_demo.py; [ -s $SRC/${X}_demo.rebased.py ] && DEMO=$SRC/${X}_demo.rebased.py
rm -rf "$WT"; git -C /repo worktree prune
git -C /repo worktree add --detach "$WT" HEAD -q || { echo "{\"ok\": false, \"why\": \"worktree\"}" > "$OUT"; exit 1; }
cd "$WT"
applied=plain
if ! git apply "$PATCH" 2>/dev/null; then
  applied=3way
  if ! git apply --3way "$PATCH" 2>/tmp/cf_${P}_${X}.err; then
    echo "{\"ok\": false, \"why\": \"patch does not apply to current HEAD\"}" > "$OUT"
    cd /; git -C /repo worktree remove --force "$WT"; exit 1
  fi
  git reset -q
fi
git diff > "$WT/.seed.patch"
demo_with=$( /venv/bin/python "$DEMO" >/tmp/cf_${P}_${X}.with.log 2>&1; echo $? )
file_with=$(grep -o "$WT/histogrammar/__init__.py" /tmp/cf_${P}_${X}.with.log | head -1)
/venv/bin/python -m pytest -q -p no:cacheprovider --timeout=900 --continue-on-collection-errors tests/ > /tmp/cf_${P}_${X}.tests.log 2>&1
summary=$(grep -E "passed|failed" /tmp/cf_${P}_${X}.tests.log | tail -1)
passed=$(echo "$summary" | grep -o '[0-9]* passed' | grep -o '[0-9]*')
failed=$(echo "$summary" | grep -o '[0-9]* failed' | grep -o '[0-9]*')
git checkout -q -- .
demo_without=$( /venv/bin/python "$DEMO" >/tmp/cf_${P}_${X}.without.log 2>&1; echo $? )
ok=false
if [ "$demo_with" != "0" ] && [ "$demo_without" = "0" ] && [ "${passed:-0}" = "79" ] && [ "${failed:-0}" = "16" ]; then ok=true; fi
cp "$WT/.seed.patch" "$SRC/$X.current.patch" 2>/dev/null
cat > "$OUT" <<EOF
{"ok": $ok, "applied": "$applied", "demo_exit_with_patch": $demo_with, "demo_exit_without_patch": $demo_without,
 "tests_passed": ${passed:-0}, "tests_failed": ${failed:-0}, "head": "$(git -C /repo rev-parse --short HEAD)",
 "imported_from_worktree": "$( [ -n "$file_with" ] && echo yes || echo unknown )"}
EOF
cd /
git -C /repo worktree remove --force "$WT"
rm -f /tmp/cf_${P}_${X}.*.log /tmp/cf_${P}_${X}.err
cat "$OUT"
