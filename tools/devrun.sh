#!/bin/bash
# devrun.sh <patch> <prop> [tier] — like devseed.sh but prints the full output of the check (development aid)
PATCH=$1; P=$2; T=${3:-quick}
WT=/var/tmp/devrun_$$
git -C /repo worktree add --detach $WT HEAD -q || exit 2
( cd $WT && git apply "$PATCH" ) || { echo "PATCH-DOES-NOT-APPLY"; git -C /repo worktree remove --force $WT; exit 2; }
( cd ${VDIR:-/verif} && HGMC_REPO=$WT HGMC_OUT=/var/tmp/devout_$$ ./check $P --tier $T 2>&1 | cut -c1-400 | head -${LINES_MAX:-40} )
git -C /repo worktree remove --force $WT; rm -rf /var/tmp/devout_$$
