#!/bin/bash
# selftest.sh — every quick check must be silent on the unchanged tree under several VERIF_SEED values and two string-hash
# seeds, with identical coverage counts (the explored set does not depend on either).
cd /verif || exit 2
rc=0
for p in C01 C02 C03 C04 C05 C06 C07 C08 C09 C10 C11 C12 C13 C14 C15 C16 C17; do
  ref=""
  for cfg in "0 0" "1 0" "7 0" "0 1" "3 12345"; do
    set -- $cfg
    out=$(VERIF_SEED=$1 HGMC_HASHSEED=$2 ./check $p --tier quick 2>&1)
    code=$?
    line=$(echo "$out" | grep -E "^$p tier=" | sed 's/\[[0-9.]*s\]//')
    if [ $code -ne 0 ] || echo "$out" | grep -q "^VIOLATION"; then echo "FAIL $p seed=$1 hashseed=$2: exit $code"; rc=1; fi
    if [ -z "$ref" ]; then ref="$line"; elif [ "$line" != "$ref" ]; then echo "DIFF $p seed=$1 hashseed=$2: $line  vs  $ref"; rc=1; fi
  done
  echo "$p: $ref"
done
exit $rc
