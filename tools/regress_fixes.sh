#!/bin/bash
# regress_fixes.sh — for every "fixed" entry of known_findings.json, re-introduce the defect (reverse patch of the fix:
# commit, applied to /repo's working tree), run the property's quick check, undo. A fixed defect must be reported
# again if it ever returns. Writes seeded/REGRESSIONS.md.
cd /verif || exit 2
OUT=seeded/REGRESSIONS.md
mkdir -p /var/tmp/regress
{
  echo "# Re-introducing each repaired defect ($(date -u +%Y-%m-%dT%H:%MZ), /repo $(git -C /repo rev-parse --short HEAD), /verif $(git rev-parse --short HEAD))"
  echo
  echo "| property | fix commit | result of ./check <property> --tier quick with the fix reverted | what was repaired |"
  echo "|---|---|---|---|"
} > $OUT.tmp
/venv/bin/python - <<'PY' > /var/tmp/regress/list.txt
import json
for e in json.load(open('/verif/known_findings.json'))['fixed']:
    print("%s\t%s\t%s" % (e['property'], e['commit'], e['what'].replace("|", "/")))
PY
rc=0
while IFS=$'\t' read -r prop commit what; do
  git -C /repo diff $commit $commit^ > /var/tmp/regress/$commit.patch
  # where later fix: commits touched the same lines the plain reverse patch no longer applies: hand-made equivalent
  [ -s /verif/seeded/regressions/$commit.patch ] && cp /verif/seeded/regressions/$commit.patch /var/tmp/regress/$commit.patch
  line=$(tools/seedrun.py /var/tmp/regress/$commit.patch $prop | tail -1)
  res=$(echo "$line" | awk '{print $1}')
  sig=$(echo "$line" | sed -n 's/.*first: sig=//p' | cut -c1-120)
  [ "$res" != "DETECTED" ] && rc=1
  echo "| $prop | $commit | $res \`$sig\` | $what |" >> $OUT.tmp
  echo "$prop $commit $res"
done < /var/tmp/regress/list.txt
mv $OUT.tmp $OUT
rm -rf /var/tmp/regress
exit $rc
