#!/venv/bin/python
"""seedrun.py <patch-file> <prop> [<prop> ...] [--tier quick]

Apply a seeded change to /repo's working tree, run the given checks against it, and undo it straight afterwards
(git -C /repo checkout -- .). Prints one line per check: DETECTED (exit 1 with VIOLATION) / MISSED (exit 0) / ERROR.
"""
import os
import subprocess
import sys
import time


def sh(cmd, **kw):
    return subprocess.run(cmd, shell=True, capture_output=True, text=True, **kw)


def main():
    args = [a for a in sys.argv[1:] if not a.startswith("--")]
    tier = "quick"
    if "--tier" in sys.argv:
        tier = sys.argv[sys.argv.index("--tier") + 1]
        args = [a for a in args if a != tier]
    patch, props = args[0], args[1:]
    st = sh("git -C /repo status --porcelain --untracked-files=no")
    if st.stdout.strip():
        print("refusing: /repo working tree is not clean:\n" + st.stdout)
        return 2
    r = sh("git -C /repo apply %s" % patch)
    if r.returncode != 0:
        r = sh("git -C /repo apply --3way %s && git -C /repo reset -q" % patch)
        if r.returncode != 0:
            print("PATCH-DOES-NOT-APPLY", patch, r.stderr[:300])
            sh("git -C /repo reset -q --hard HEAD")
            return 2
    rc = 0
    try:
        for p in props:
            t0 = time.time()
            c = sh("cd /verif && ./check %s --tier %s" % (p, tier))
            viol = [l for l in c.stdout.splitlines() if l.startswith("VIOLATION")]
            sigs = [l.strip() for l in c.stdout.splitlines() if l.strip().startswith("sig=")]
            if c.returncode == 1 and viol:
                print("DETECTED %s by %s in %.0fs: %d violation(s); first: %s" % (os.path.basename(patch), p, time.time() - t0,
                                                                                  len(viol), sigs[0][:200] if sigs else ""))
            elif c.returncode == 0:
                print("MISSED   %s by %s in %.0fs" % (os.path.basename(patch), p, time.time() - t0))
                rc = 1
            else:
                print("ERROR    %s by %s (exit %d): %s" % (os.path.basename(patch), p, c.returncode, (c.stdout + c.stderr)[-600:]))
                rc = 2
    finally:
        sh("git -C /repo reset -q --hard HEAD")
    return rc


if __name__ == "__main__":
    sys.exit(main())
