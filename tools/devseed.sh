#!/bin/bash
# devseed.sh <patch> <prop> [...] — development-time twin of seedrun.py that does not touch /repo: applies the patch in a
# scratch worktree of /repo HEAD and points the checks at it (HGMC_REPO), with evidence/replays redirected (HGMC_OUT).
PATCH=$1; shift
WT=/var/tmp/devseed_$$
git -C /repo worktree add --detach $WT HEAD -q || exit 2
( cd $WT && { git apply "$PATCH" 2>/dev/null || { git apply --3way "$PATCH" >/dev/null 2>&1 && git reset -q; }; } ) || { echo "PATCH-DOES-NOT-APPLY $PATCH"; git -C /repo worktree remove --force $WT; exit 2; }
for p in "$@"; do
  out=$(cd ${VDIR:-/verif} && HGMC_REPO=$WT HGMC_OUT=/var/tmp/devout_$$ ./check $p --tier ${TIER:-quick} 2>&1)
  if echo "$out" | grep -q "^VIOLATION"; then echo "DETECTED $(basename $(dirname $PATCH))/$(basename $PATCH) by $p: $(echo "$out" | grep -A1 '^VIOLATION' | grep -m1 'sig=' | cut -c1-180)";
  else echo "MISSED   $(basename $(dirname $PATCH))/$(basename $PATCH) by $p  [$(echo "$out" | grep -E "^$p tier=" | cut -c1-60)]"; fi
done
git -C /repo worktree remove --force $WT; rm -rf /var/tmp/devout_$$
