"""Execution core shared by all drivers: build + replay histories on fresh objects, reachable-state sets."""
import itertools
import json

from . import alphabet as A
from . import canon as C
from . import framework as FW
from . import refmodel as R
from . import spec as S


def mk(spec, evs=(), failing=False):
    h = S.build(spec, failing=failing)
    for r, w in evs:
        h.fill(A.fresh(r), w)
    return h


def show_evs(evs):
    return [[A.show(r), A.show(w)] for r, w in evs]


def unshow_evs(sevs):
    return [(A.unshow(r), A.unshow(w)) for r, w in sevs]


def compact(rec, spec=None):
    """Only the fields the tree reads (for readable samples)."""
    if spec is None:
        return A.show(rec)
    fs = S.fields(spec)
    return {k: A.show(v) for k, v in rec.items() if k in fs or k == "fail"}


def sample_hist(spec, evs):
    return {"tree": S.sid(spec), "fills": [[compact(r, spec), A.show(w)] for r, w in evs]}


def sequences(events, n):
    """Every sequence of length 0..n over events (as index tuples), shortest first."""
    idx = range(len(events))
    for k in range(n + 1):
        yield from itertools.product(idx, repeat=k)


def reachable(spec, events, n, acc=None, check=None):
    """States reachable by <= n fills: dict obs -> representative history (list of events), shortest first.
    `check(h, hist)` is called on every executed sequence (after the last step)."""
    out = {}
    nseq = 0
    for seq in sequences(events, n):
        hist = [events[i] for i in seq]
        try:
            h = mk(spec, hist)
        except Exception as e:  # a fill that raises is reported by C02/C05; here the state is simply absent
            if acc is not None:
                acc.n("reach_fill_exceptions")
            continue
        nseq += 1
        if check is not None:
            check(h, hist)
        k = C.obs(h)
        if k not in out:
            out[k] = hist
    if acc is not None:
        acc.n("fill_sequences_executed", nseq)
    return out


def ref_diff(h, spec, evs, **kw):
    """diff of the real document against the reference document for the same multiset."""
    return C.diff(h.toJson(), R.ref_doc(spec, evs), **kw)


def v_diff(prop, driver, what, d, real_doc, args, extra=None):
    """Build a violation from a diff tuple."""
    path, kind, rv, ev = d
    locus = FW.doc_locus(real_doc, path)
    detail = {"what": what, "path": path, "real": rv, "expected": ev}
    if extra:
        detail.update(extra)
    return FW.violation(prop, driver, "%s:%s" % (what, locus), kind, args, detail)


def v_exc(prop, driver, what, exc, args, extra=None):
    detail = {"what": what, "exception": "%s: %s" % (type(exc).__name__, str(exc)[:300])}
    if extra:
        detail.update(extra)
    return FW.violation(prop, driver, "%s:%s" % (what, FW.exc_locus(exc)), "exception", args, detail)


def root_classes(evs, spec):
    """Routing classes hit at the root by a history (anti-vacuity counters)."""
    out = set()
    if spec["t"] in S.BINNING:
        for r, w in evs:
            if w > 0:
                for k in R.bin_route(spec, float(r[spec["q"]])):
                    out.add(k if isinstance(k, str) else "bin")
    return out
