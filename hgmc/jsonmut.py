"""Reference validator of the histogrammar JSON format + typed walk + single-point mutation operators (C15).

The validator is written from the format specification (keys, types, ranges per primitive), not from the
library's parsing code."""
import copy

TYPES = ["Count", "Sum", "Average", "Deviate", "Minimize", "Maximize", "Bag", "Bin", "SparselyBin", "CentrallyBin",
         "IrregularlyBin", "Stack", "Categorize", "Fraction", "Select", "Label", "UntypedLabel", "Index", "Branch"]
NONFINITE = ("nan", "inf", "-inf")


def is_num(x):
    return (isinstance(x, (int, float)) and not isinstance(x, bool)) or (isinstance(x, str) and x in NONFINITE)


def num(x):
    return float(x)


def ok_entries(x):
    return is_num(x) and not num(x) < 0.0


def ok_name(d, key="name"):
    return key not in d or d[key] is None or isinstance(d[key], str)


def keys_ok(d, required, optional=()):
    return isinstance(d, dict) and set(required) <= set(d) <= set(required) | set(optional)


LEAF_FIELDS = {"Sum": ["sum"], "Average": ["mean"], "Deviate": ["mean", "variance"], "Minimize": ["min"],
               "Maximize": ["max"]}


def valid(typ, f):
    """Is fragment f a valid serialisation of an aggregator of type typ?"""
    if typ not in TYPES:
        return False
    if typ == "Count":
        return ok_entries(f)
    if typ in LEAF_FIELDS:
        req = ["entries"] + LEAF_FIELDS[typ]
        return keys_ok(f, req, ["name"]) and ok_entries(f["entries"]) and all(is_num(f[k]) for k in LEAF_FIELDS[typ]) \
            and ok_name(f)
    if typ == "Bag":
        if not (keys_ok(f, ["entries", "values", "range"], ["name"]) and ok_entries(f["entries"]) and ok_name(f)):
            return False
        r = f["range"]
        if not isinstance(r, str) or not (r == "S" or r == "N" or (r[:1] == "N" and r[1:].isdigit() and int(r[1:]) > 0)):
            return False
        if not isinstance(f["values"], list):
            return False
        for e in f["values"]:
            if not (keys_ok(e, ["w", "v"]) and is_num(e["w"])):
                return False
            v = e["v"]
            if r == "S":
                if not isinstance(v, str):
                    return False
            elif r == "N":
                if not is_num(v):
                    return False
            else:
                if not (isinstance(v, list) and len(v) == int(r[1:]) and all(is_num(x) for x in v)):
                    return False
        return True
    if typ == "Bin":
        req = ["low", "high", "entries", "values:type", "values", "underflow:type", "underflow", "overflow:type", "overflow",
               "nanflow:type", "nanflow"]
        if not (keys_ok(f, req, ["name", "values:name"]) and ok_entries(f["entries"]) and ok_name(f) and ok_name(f, "values:name")):
            return False
        if not (is_num(f["low"]) and is_num(f["high"]) and num(f["low"]) < num(f["high"])):
            return False
        if not (isinstance(f["values"], list) and len(f["values"]) >= 1 and isinstance(f["values:type"], str)):
            return False
        if not all(valid(f["values:type"], x) for x in f["values"]):
            return False
        for k in ("underflow", "overflow", "nanflow"):
            if not (isinstance(f[k + ":type"], str) and valid(f[k + ":type"], f[k])):
                return False
        return True
    if typ == "SparselyBin":
        req = ["binWidth", "entries", "bins:type", "bins", "nanflow:type", "nanflow", "origin"]
        if not (keys_ok(f, req, ["name", "bins:name"]) and ok_entries(f["entries"]) and ok_name(f) and ok_name(f, "bins:name")):
            return False
        if not (is_num(f["binWidth"]) and num(f["binWidth"]) > 0 and is_num(f["origin"])):
            return False
        if not (isinstance(f["bins"], dict) and isinstance(f["bins:type"], str) and f["bins:type"] in TYPES):
            return False
        for k, v in f["bins"].items():
            try:
                int(k)
            except ValueError:
                return False
            if not valid(f["bins:type"], v):
                return False
        return isinstance(f["nanflow:type"], str) and valid(f["nanflow:type"], f["nanflow"])
    if typ in ("CentrallyBin", "IrregularlyBin", "Stack"):
        req = ["entries", "bins:type", "bins", "nanflow:type", "nanflow"]
        if not (keys_ok(f, req, ["name", "bins:name"]) and ok_entries(f["entries"]) and ok_name(f) and ok_name(f, "bins:name")):
            return False
        pos = "center" if typ == "CentrallyBin" else "atleast"
        if not (isinstance(f["bins"], list) and isinstance(f["bins:type"], str) and f["bins:type"] in TYPES):
            return False
        if typ == "CentrallyBin" and len(f["bins"]) < 2:
            return False
        if len(f["bins"]) < 1:
            return False
        for e in f["bins"]:
            if not (keys_ok(e, [pos, "data"]) and is_num(e[pos]) and valid(f["bins:type"], e["data"])):
                return False
        return isinstance(f["nanflow:type"], str) and valid(f["nanflow:type"], f["nanflow"])
    if typ == "Categorize":
        if not (keys_ok(f, ["entries", "bins:type", "bins"], ["name", "bins:name"]) and ok_entries(f["entries"])
                and ok_name(f) and ok_name(f, "bins:name")):
            return False
        if not (isinstance(f["bins"], dict) and isinstance(f["bins:type"], str) and f["bins:type"] in TYPES):
            return False
        return all(valid(f["bins:type"], v) for v in f["bins"].values())
    if typ == "Fraction":
        if not (keys_ok(f, ["entries", "sub:type", "numerator", "denominator"], ["name", "sub:name"]) and
                ok_entries(f["entries"]) and ok_name(f) and ok_name(f, "sub:name")):
            return False
        return isinstance(f["sub:type"], str) and valid(f["sub:type"], f["numerator"]) and valid(f["sub:type"], f["denominator"])
    if typ == "Select":
        if not (keys_ok(f, ["entries", "sub:type", "data"], ["name"]) and ok_entries(f["entries"]) and ok_name(f)):
            return False
        return isinstance(f["sub:type"], str) and valid(f["sub:type"], f["data"])
    if typ == "Label":
        if not (keys_ok(f, ["entries", "sub:type", "data"]) and ok_entries(f["entries"])):
            return False
        if not (isinstance(f["data"], dict) and len(f["data"]) >= 1 and isinstance(f["sub:type"], str)):
            return False
        return all(valid(f["sub:type"], v) for v in f["data"].values())
    if typ == "Index":
        if not (keys_ok(f, ["entries", "sub:type", "data"]) and ok_entries(f["entries"])):
            return False
        if not (isinstance(f["data"], list) and len(f["data"]) >= 1 and isinstance(f["sub:type"], str)):
            return False
        return all(valid(f["sub:type"], v) for v in f["data"])
    if typ in ("UntypedLabel", "Branch"):
        if not (keys_ok(f, ["entries", "data"]) and ok_entries(f["entries"])):
            return False
        d = f["data"]
        if typ == "UntypedLabel":
            if not isinstance(d, dict):
                return False
            elems = list(d.values())
        else:
            if not (isinstance(d, list) and len(d) >= 1):
                return False
            elems = d
        return all(keys_ok(e, ["type", "data"]) and isinstance(e["type"], str) and valid(e["type"], e["data"]) for e in elems)
    return False


def valid_doc(doc, spec_version):
    if not (isinstance(doc, dict) and {"type", "data", "version"} <= set(doc)):
        return False
    if not (isinstance(doc["version"], str) and isinstance(doc["type"], str)):
        return False
    try:
        major = int(doc["version"].split(".")[0])
        smajor = int(spec_version.split(".")[0])
    except ValueError:
        return False
    if major > smajor:
        return False  # a later major version is incompatible (minor differences are not asserted here)
    return valid(doc["type"], doc["data"])


# ------------------------------------------------------------------ typed walk
def walk(typ, f, path):
    """Yield (path, role, info) for every position of a *valid* fragment.
    roles: fixeddict(required, optional) | num | typename | name | str | list | map | elem-wrapper | entries"""
    P = tuple(path)
    if typ == "Count":
        yield P, "entries", {"type": typ}
        return
    if typ in LEAF_FIELDS:
        yield P, "fixeddict", {"type": typ, "required": ["entries"] + LEAF_FIELDS[typ], "optional": ["name"]}
        yield P + ("entries",), "entries", {"type": typ}
        for k in LEAF_FIELDS[typ]:
            yield P + (k,), "num", {"type": typ, "field": k}
        if "name" in f:
            yield P + ("name",), "name", {"type": typ}
        return
    if typ == "Bag":
        yield P, "fixeddict", {"type": typ, "required": ["entries", "values", "range"], "optional": ["name"]}
        yield P + ("entries",), "entries", {"type": typ}
        yield P + ("range",), "str", {"type": typ, "field": "range"}
        yield P + ("values",), "list", {"type": typ, "field": "values"}
        for i, e in enumerate(f["values"]):
            yield P + ("values", i), "elem-wrapper", {"type": typ, "field": "values", "required": ["w", "v"]}
            yield P + ("values", i, "w"), "num", {"type": typ, "field": "values.w"}
            yield P + ("values", i, "v"), "bagvalue", {"type": typ, "field": "values.v", "range": f["range"]}
        if "name" in f:
            yield P + ("name",), "name", {"type": typ}
        return
    if typ == "Bin":
        req = ["low", "high", "entries", "values:type", "values", "underflow:type", "underflow", "overflow:type", "overflow",
               "nanflow:type", "nanflow"]
        yield P, "fixeddict", {"type": typ, "required": req, "optional": ["name", "values:name"]}
        yield P + ("entries",), "entries", {"type": typ}
        for k in ("low", "high"):
            yield P + (k,), "num", {"type": typ, "field": k}
        yield P + ("values:type",), "typename", {"type": typ, "field": "values:type"}
        yield P + ("values",), "list", {"type": typ, "field": "values"}
        for i, x in enumerate(f["values"]):
            yield P + ("values", i), "child", {"type": typ, "field": "values"}
            yield from walk(f["values:type"], x, P + ("values", i))
        for k in ("underflow", "overflow", "nanflow"):
            yield P + (k + ":type",), "typename", {"type": typ, "field": k + ":type"}
            yield from walk(f[k + ":type"], f[k], P + (k,))
        for k in ("name", "values:name"):
            if k in f:
                yield P + (k,), "name", {"type": typ, "field": k}
        return
    if typ == "SparselyBin":
        req = ["binWidth", "entries", "bins:type", "bins", "nanflow:type", "nanflow", "origin"]
        yield P, "fixeddict", {"type": typ, "required": req, "optional": ["name", "bins:name"]}
        yield P + ("entries",), "entries", {"type": typ}
        for k in ("binWidth", "origin"):
            yield P + (k,), "num", {"type": typ, "field": k}
        yield P + ("bins:type",), "typename", {"type": typ, "field": "bins:type", "empty": len(f["bins"]) == 0}
        yield P + ("bins",), "map", {"type": typ, "field": "bins", "intkeys": True}
        for k, x in f["bins"].items():
            yield P + ("bins", k), "child", {"type": typ, "field": "bins", "intkey": True}
            yield from walk(f["bins:type"], x, P + ("bins", k))
        yield P + ("nanflow:type",), "typename", {"type": typ, "field": "nanflow:type"}
        yield from walk(f["nanflow:type"], f["nanflow"], P + ("nanflow",))
        for k in ("name", "bins:name"):
            if k in f:
                yield P + (k,), "name", {"type": typ, "field": k}
        return
    if typ in ("CentrallyBin", "IrregularlyBin", "Stack"):
        pos = "center" if typ == "CentrallyBin" else "atleast"
        yield P, "fixeddict", {"type": typ, "required": ["entries", "bins:type", "bins", "nanflow:type", "nanflow"],
                               "optional": ["name", "bins:name"]}
        yield P + ("entries",), "entries", {"type": typ}
        yield P + ("bins:type",), "typename", {"type": typ, "field": "bins:type"}
        yield P + ("bins",), "list", {"type": typ, "field": "bins"}
        for i, e in enumerate(f["bins"]):
            yield P + ("bins", i), "elem-wrapper", {"type": typ, "field": "bins", "required": [pos, "data"]}
            yield P + ("bins", i, pos), "num", {"type": typ, "field": "bins." + pos}
            yield from walk(f["bins:type"], e["data"], P + ("bins", i, "data"))
        yield P + ("nanflow:type",), "typename", {"type": typ, "field": "nanflow:type"}
        yield from walk(f["nanflow:type"], f["nanflow"], P + ("nanflow",))
        for k in ("name", "bins:name"):
            if k in f:
                yield P + (k,), "name", {"type": typ, "field": k}
        return
    if typ == "Categorize":
        yield P, "fixeddict", {"type": typ, "required": ["entries", "bins:type", "bins"], "optional": ["name", "bins:name"]}
        yield P + ("entries",), "entries", {"type": typ}
        yield P + ("bins:type",), "typename", {"type": typ, "field": "bins:type", "empty": len(f["bins"]) == 0}
        yield P + ("bins",), "map", {"type": typ, "field": "bins"}
        for k, x in f["bins"].items():
            yield P + ("bins", k), "child", {"type": typ, "field": "bins"}
            yield from walk(f["bins:type"], x, P + ("bins", k))
        for k in ("name", "bins:name"):
            if k in f:
                yield P + (k,), "name", {"type": typ, "field": k}
        return
    if typ == "Fraction":
        yield P, "fixeddict", {"type": typ, "required": ["entries", "sub:type", "numerator", "denominator"],
                               "optional": ["name", "sub:name"]}
        yield P + ("entries",), "entries", {"type": typ}
        yield P + ("sub:type",), "typename", {"type": typ, "field": "sub:type"}
        for k in ("numerator", "denominator"):
            yield from walk(f["sub:type"], f[k], P + (k,))
        for k in ("name", "sub:name"):
            if k in f:
                yield P + (k,), "name", {"type": typ, "field": k}
        return
    if typ == "Select":
        yield P, "fixeddict", {"type": typ, "required": ["entries", "sub:type", "data"], "optional": ["name"]}
        yield P + ("entries",), "entries", {"type": typ}
        yield P + ("sub:type",), "typename", {"type": typ, "field": "sub:type"}
        yield from walk(f["sub:type"], f["data"], P + ("data",))
        if "name" in f:
            yield P + ("name",), "name", {"type": typ}
        return
    if typ in ("Label", "Index"):
        yield P, "fixeddict", {"type": typ, "required": ["entries", "sub:type", "data"], "optional": []}
        yield P + ("entries",), "entries", {"type": typ}
        yield P + ("sub:type",), "typename", {"type": typ, "field": "sub:type"}
        yield P + ("data",), "map" if typ == "Label" else "list", {"type": typ, "field": "data"}
        items = f["data"].items() if typ == "Label" else enumerate(f["data"])
        for k, x in items:
            yield P + ("data", k), "child", {"type": typ, "field": "data"}
            yield from walk(f["sub:type"], x, P + ("data", k))
        return
    if typ in ("UntypedLabel", "Branch"):
        yield P, "fixeddict", {"type": typ, "required": ["entries", "data"], "optional": []}
        yield P + ("entries",), "entries", {"type": typ}
        yield P + ("data",), "map" if typ == "UntypedLabel" else "list", {"type": typ, "field": "data"}
        items = f["data"].items() if typ == "UntypedLabel" else enumerate(f["data"])
        for k, e in items:
            yield P + ("data", k), "elem-wrapper", {"type": typ, "field": "data", "required": ["type", "data"]}
            yield P + ("data", k, "type"), "typename", {"type": typ, "field": "data.type"}
            yield from walk(e["type"], e["data"], P + ("data", k, "data"))
        return
    raise ValueError(typ)


def get(doc, path):
    cur = doc
    for p in path:
        cur = cur[p]
    return cur


def put(doc, path, value):
    d = copy.deepcopy(doc)
    cur = d
    for p in path[:-1]:
        cur = cur[p]
    cur[path[-1]] = value
    return d


def delete(doc, path):
    d = copy.deepcopy(doc)
    cur = d
    for p in path[:-1]:
        cur = cur[p]
    del cur[path[-1]]
    return d


VOCAB = ["type", "data", "entries", "sub:type", "bins:type", "values:type", "nanflow:type", "atleast", "center", "w", "v",
         "name", "bins:name", "sub:name", "values:name", "range", "low", "high", "bins", "values", "nanflow", "origin",
         "binWidth", "numerator", "denominator", "sum", "mean", "min", "max", "variance", "underflow", "overflow", "version"]


def mutants(doc):
    """Yield (operator, locus, path, mutated_doc) for every single-point mutation of a valid document."""
    typ = doc["type"]
    # header
    for k in ("type", "data", "version"):
        yield "M1-delete-required-key", "header." + k, (k,), delete(doc, (k,))
    yield "M7-version", "header.version", ("version",), put(doc, ("version",), "9.9")
    yield "M7-version", "header.version", ("version",), put(doc, ("version",), 11)
    yield "M3-retype", "header.type", ("type",), put(doc, ("type",), 7)
    yield "M4-rename-type", "header.type", ("type",), put(doc, ("type",), "Bogus")
    for t in TYPES:
        if t != typ:
            yield "M4-retype-to-registered", "header.type", ("type",), put(doc, ("type",), t)
    for path, role, info in walk(typ, doc["data"], ("data",)):
        T = info.get("type")
        fld = info.get("field", "")
        locus = "%s.%s" % (T, fld) if fld else "%s" % T
        cur = get(doc, path)
        if role == "fixeddict":
            for k in info["required"]:
                yield "M1-delete-required-key", "%s.%s" % (T, k), path + (k,), delete(doc, path + (k,))
            yield "M2-add-unknown-key", "%s" % T, path, put(doc, path + ("bogus",), 1)
            for k in VOCAB:  # a key that is legal elsewhere in the format but not here
                if k not in info["required"] and k not in info["optional"]:
                    yield "M2-add-foreign-key", "%s" % T, path, put(doc, path + (k,), 1)
            for bad in ([], 3):
                yield "M3-retype", "%s(fragment)" % T, path, put(doc, path, bad)
        elif role == "elem-wrapper":
            for k in info["required"]:
                yield "M1-delete-required-key", "%s.%s element.%s" % (T, fld, k), path + (k,), delete(doc, path + (k,))
            yield "M2-add-unknown-key", "%s.%s element" % (T, fld), path, put(doc, path + ("bogus",), 1)
            for k in VOCAB:
                if k not in info["required"]:
                    yield "M2-add-foreign-key", "%s.%s element" % (T, fld), path, put(doc, path + (k,), 1)
            for bad in (None, {"bogus": 1}, 3, []):
                yield "M5-replace-element", "%s.%s element" % (T, fld), path, put(doc, path, bad)
        elif role == "child":
            for bad in (None, {"bogus": 1}):
                yield "M5-replace-element", "%s.%s element" % (T, fld), path, put(doc, path, bad)
            if info.get("intkey"):
                d = copy.deepcopy(doc)
                m = get(d, path[:-1])
                m["x" + str(path[-1])] = m.pop(path[-1])
                yield "M5-non-integer-key", "%s.bins key" % T, path, d
        elif role in ("num", "entries"):
            for bad in ([], {}, None, "abc"):
                yield "M3-retype", locus if role == "num" else "%s.entries" % T, path, put(doc, path, bad)
            if role == "entries":
                yield "M6-negative-entries", "%s.entries" % T, path, put(doc, path, -1)
        elif role == "typename":
            for bad in (7, None, []):
                yield "M3-retype", locus, path, put(doc, path, bad)
            yield "M4-rename-type", locus, path, put(doc, path, "Bogus")
            for t in TYPES:
                if t != cur:
                    yield "M4-retype-to-registered", locus, path, put(doc, path, t)
        elif role == "name":
            for bad in (7, [], 0, 0.0, False, {}, ["a"]):
                yield "M3-retype", "%s.%s" % (T, path[-1]), path, put(doc, path, bad)
        elif role == "str":
            for bad in (7, None, []):
                yield "M3-retype", locus, path, put(doc, path, bad)
        elif role in ("list", "map"):
            for bad in (({}, 3) if role == "list" else ([], 3)):
                yield "M3-retype", locus, path, put(doc, path, bad)
        elif role == "bagvalue":
            r = info["range"]
            bads = {"N": ["abc", [1.0], None], "S": [3.0, None, [1.0]]}.get(r, ["abc", 3.0, [1.0], None])
            for bad in bads:
                yield "M3-retype", "Bag.values.v(range %s)" % ("N#" if r not in ("N", "S") else r), path, put(doc, path, bad)
