"""Structural neighbours of a spec: exactly one structural parameter changed, at any depth (C09, C10)."""
import copy

from . import spec as S


def _ulp(x):
    """The float next to x (a structural parameter that differs in the last bit is still a different parameter)."""
    import math

    return math.nextafter(x, math.inf)


def _local(node):
    """Neighbours of a single node (children untouched): list of (label, newnode)."""
    t = node["t"]
    out = []

    def mod(label, **kw):
        n = copy.deepcopy(node)
        n.update(kw)
        out.append((label, n))

    if t == "Bin":
        num, low, high = node["p"]
        mod("Bin.num", p=[num + 1, low, high])
        mod("Bin.low", p=[num, low - 1.0, high])
        mod("Bin.high", p=[num, low, high + 1.0])
        mod("Bin.low", p=[num, _ulp(low), high])
        mod("Bin.high", p=[num, low, _ulp(high)])
        for k in ("uf", "of", "nf"):
            if k not in node:
                mod("Bin.%s-type" % k, **{k: {"t": "Sum", "q": "y"}})
    elif t == "SparselyBin":
        bw, o = node["p"]
        mod("SparselyBin.binWidth", p=[bw * 2.0, o])
        mod("SparselyBin.origin", p=[bw, o + 0.25])
        mod("SparselyBin.binWidth", p=[_ulp(bw), o])
        mod("SparselyBin.origin", p=[bw, _ulp(o)])
        if "nf" not in node:
            mod("SparselyBin.nf-type", nf={"t": "Sum", "q": "y"})
    elif t == "CentrallyBin":
        c = list(node["p"])
        mod("CentrallyBin.center", p=c[:-1] + [c[-1] + 1.0])
        mod("CentrallyBin.center", p=c[:-1] + [_ulp(c[-1])])
        mod("CentrallyBin.extra-center", p=c + [c[-1] + 2.0])
        if "nf" not in node:
            mod("CentrallyBin.nf-type", nf={"t": "Sum", "q": "y"})
    elif t in ("IrregularlyBin", "Stack"):
        e = list(node["p"])
        if e:
            mod(t + ".threshold", p=e[:-1] + [e[-1] + 0.5])
            mod(t + ".threshold", p=e[:-1] + [_ulp(e[-1])])
        mod(t + ".extra-trailing-threshold", p=e + [(e[-1] + 1.0) if e else 0.0])
        mod(t + ".fewer-thresholds", p=e[:-1]) if len(e) > 1 else None
        if "nf" not in node:
            mod(t + ".nf-type", nf={"t": "Sum", "q": "y"})
    elif t == "Bag":
        r = node.get("range", "N")
        if r == "N":
            mod("Bag.range", range="S", q="b")
            mod("Bag.range", range="N2", q="v")
        elif r == "S":
            mod("Bag.range", range="N", q="y")
        else:
            mod("Bag.range", range="N3")
    elif t in ("Label", "UntypedLabel"):
        ch = node["ch"]
        keys = list(ch)
        n = copy.deepcopy(node)
        n["ch"] = {("z" if k == keys[-1] else k): v for k, v in ch.items()}
        out.append((t + ".key", n))
        n = copy.deepcopy(node)
        n["ch"]["c"] = copy.deepcopy(ch[keys[0]])
        out.append((t + ".extra-member", n))
        if len(keys) >= 2 and S.key(ch[keys[0]]) != S.key(ch[keys[-1]]):
            # the first and the last member exchanged between their keys, declared in the opposite order (so that the
            # two lists of children line up position by position)
            n = copy.deepcopy(node)
            items = list(ch.items())
            first, last = items[0], items[-1]
            n["ch"] = dict([(last[0], copy.deepcopy(first[1]))] + [(k, copy.deepcopy(v)) for k, v in items[1:-1]] +
                           [(first[0], copy.deepcopy(last[1]))])
            out.append((t + ".children-exchanged", n))
    elif t in ("Index", "Branch"):
        n = copy.deepcopy(node)
        n["ch"] = list(n["ch"]) + [copy.deepcopy(n["ch"][0])]
        out.append((t + ".extra-member", n))
    # type change of the node itself (used for children: "child type anywhere in the tree")
    return out


_LEAF_SWAP = {
    "Count": {"t": "Sum", "q": "y"},
    "Sum": {"t": "Average", "q": "y"},
    "Average": {"t": "Deviate", "q": "y"},
    "Deviate": {"t": "Average", "q": "y"},
    "Minimize": {"t": "Maximize", "q": "y"},
    "Maximize": {"t": "Minimize", "q": "y"},
    "Bag": {"t": "Count"},
}


def _retype(node):
    t = node["t"]
    if t in _LEAF_SWAP:
        n = dict(_LEAF_SWAP[t])
        if "q" in n and "q" in node:
            n["q"] = node["q"]
        return [("%s->%s" % (t, n["t"]), n)]
    if t == "Bin":
        return [("Bin->SparselyBin", {"t": "SparselyBin", "p": [1.0, 0.0], "q": node["q"], "v": node["v"]})]
    if t == "SparselyBin":
        return [("SparselyBin->Bin", {"t": "Bin", "p": [2, 0.0, 2.0], "q": node["q"], "v": node["v"]})]
    if t == "IrregularlyBin":
        return [("IrregularlyBin->Stack", dict(node, t="Stack"))]
    if t == "Stack":
        return [("Stack->IrregularlyBin", dict(node, t="IrregularlyBin"))]
    if t == "CentrallyBin":
        return [("CentrallyBin->IrregularlyBin", dict(node, t="IrregularlyBin"))]
    if t == "Categorize":
        return [("Categorize->Select", {"t": "Select", "q": "s", "v": node["v"]})]
    if t == "Select":
        return [("Select->Fraction", dict(node, t="Fraction"))]
    if t == "Fraction":
        return [("Fraction->Select", dict(node, t="Select"))]
    if t == "Label":
        return [("Label->UntypedLabel", dict(node, t="UntypedLabel"))]
    if t == "UntypedLabel":
        return [("UntypedLabel->Branch", {"t": "Branch", "ch": list(node["ch"].values())})]
    if t == "Index":
        return [("Index->Branch", dict(node, t="Branch"))]
    if t == "Branch":
        return [("Branch->UntypedLabel", {"t": "UntypedLabel", "ch": {"a": node["ch"][0], "b": node["ch"][-1]}})]
    return []


def _child_slots(node):
    t = node["t"]
    if t in S.UNARY:
        slots = [("v", node["v"])]
        for k in ("uf", "of", "nf"):
            if k in node:
                slots.append((k, node[k]))
        return slots
    if t in ("Label", "UntypedLabel"):
        return [(("ch", k), v) for k, v in node["ch"].items()]
    if t in ("Index", "Branch"):
        return [(("ch", i), v) for i, v in enumerate(node["ch"])]
    return []


def _put(node, slot, child):
    n = copy.deepcopy(node)
    if isinstance(slot, tuple):
        if isinstance(n["ch"], dict):
            n["ch"][slot[1]] = child
        else:
            n["ch"] = list(n["ch"])
            n["ch"][slot[1]] = child
    else:
        n[slot] = child
    return n


def neighbours(spec, depth=0, include_root_retype=True):
    """List of (label, depth_of_difference, neighbour_spec). Invalid specs are filtered by buildable()."""
    out = []
    for label, n in _local(spec):
        out.append((label, depth, n))
    if depth > 0 or include_root_retype:
        for label, n in _retype(spec):
            out.append(("type:" + label, depth, n))
    for slot, child in _child_slots(spec):
        if spec["t"] in ("Label", "Index") and True:
            # same-type collections: a child-local change that keeps the type is allowed; retype is not buildable
            pass
        for label, d, nc in neighbours(child, depth + 1, True):
            out.append((label, d, _put(spec, slot, nc)))
    return out


def buildable(spec):
    try:
        S.build(spec)
        return True
    except Exception:
        return False


def valid_neighbours(spec):
    seen = {S.key(spec)}
    out = []
    for label, d, n in neighbours(spec):
        k = S.key(n)
        if k in seen:
            continue
        seen.add(k)
        if buildable(n):
            out.append((label, d, n))
    return out
