"""Tree grammar: plain-JSON specs, enumeration by depth, build(spec) -> fresh real tree.

A spec is a dict:
  {"t": "Count"} | {"t": "Count", "tr": "sq"}
  {"t": "Sum"|"Average"|"Deviate"|"Minimize"|"Maximize", "q": field}
  {"t": "Bag", "q": field, "range": "N"|"S"|"N2"}
  {"t": "Bin", "p": [num, low, high], "q": field, "v": spec, ["uf": spec, "of": spec, "nf": spec]}
  {"t": "SparselyBin", "p": [binWidth, origin], "q": field, "v": spec, ["nf": spec]}
  {"t": "CentrallyBin", "p": [centers...], "q": field, "v": spec, ["nf": spec]}
  {"t": "IrregularlyBin"|"Stack", "p": [edges...], "q": field, "v": spec, ["nf": spec]}
  {"t": "Categorize", "q": field, "v": spec}
  {"t": "Fraction"|"Select", "q": field, "v": spec}
  {"t": "Label"|"UntypedLabel", "ch": {key: spec}}   {"t": "Index"|"Branch", "ch": [spec...]}
Optional "qk" on any quantity-bearing node selects the quantity kind
(lambda | lambda_default | def | str | named | named_def | cached_named_def | named_empty | cached | named_cached); default lambda.
Records are dicts with fields x, y (numbers), c (category), s (selection), b (bag string), v (2-vector).
"""
import json

LEAF_TYPES = ("Count", "Sum", "Average", "Deviate", "Minimize", "Maximize", "Bag")
BINNING = ("Bin", "SparselyBin", "CentrallyBin", "IrregularlyBin", "Stack")
UNARY = BINNING + ("Categorize", "Fraction", "Select")
COLL = ("Label", "UntypedLabel", "Index", "Branch")

# ---------------------------------------------------------------- quantities
# closure-free, self-contained functions (picklable by the library's marshal-based __reduce__)
_LAMBDAS = {
    "x": lambda d: d["x"],
    "y": lambda d: d["y"],
    "c": lambda d: d["c"],
    "s": lambda d: d["s"],
    "b": lambda d: d["b"],
    "v": lambda d: d["v"],
}


def _def_x(d):
    return d["x"]


def _def_y(d):
    return d["y"]


def _def_c(d):
    return d["c"]


def _def_s(d):
    return d["s"]


def _def_b(d):
    return d["b"]


def _def_v(d):
    return d["v"]


_DEFS = {"x": _def_x, "y": _def_y, "c": _def_c, "s": _def_s, "b": _def_b, "v": _def_v}


def _fresh_lambda(field):
    # a *new* function object each time (so two trees never share a function object), same code
    return eval('lambda d: d["%s"]' % field)


def _plain_def(field):
    ns = {}
    exec("def read_%s(d):\n    return d[%r]\n" % (field, field), ns)
    return ns["read_%s" % field]


def quantity(field, qk="lambda", nid=None, failing=False):
    """Return what is passed as `quantity=` to a constructor."""
    from histogrammar.util import cached, named

    if failing:
        def q(d, _field=field, _nid=nid):
            f = d.get("fail")
            if f is not None and f[0] == _nid:
                if f[1] == "raise":
                    raise RuntimeError("injected quantity failure at node %s" % _nid)
                return f[2]
            return d[_field]

        # the fault sits inside the function; a caching wrapper around it must not change what a failure means
        if qk in ("cached", "named_cached"):
            return cached(q)
        return q
    if qk == "lambda":
        return _fresh_lambda(field)
    if qk == "lambda_default":
        # a default argument that is only equal to itself by identity (a "missing value" marker)
        return eval('lambda d, _missing=float("nan"): d.get("%s", _missing)' % field)
    if qk == "def":
        return _DEFS[field]
    if qk == "str":
        return field
    if qk == "named":
        return named("q_" + field, _fresh_lambda(field))
    if qk == "named_def":
        # a def has a name of its own; the explicitly given one is the quantity's name
        return named("q_" + field, _plain_def(field))
    if qk == "cached_named_def":
        return cached(named("q_" + field, _plain_def(field)))
    if qk == "named_empty":
        return named("", _fresh_lambda(field))
    if qk == "cached":
        return cached(_fresh_lambda(field))
    if qk == "named_cached":
        return cached(named("q_" + field, _fresh_lambda(field)))
    if qk == "cached_named":
        return named("q_" + field, cached(_fresh_lambda(field)))
    raise ValueError(qk)


def expected_name(field, qk):
    if qk in ("lambda", "cached", "lambda_default"):
        return None
    if qk == "def":
        return "_def_" + field
    if qk == "str":
        return field
    if qk == "named_empty":
        return ""  # an empty string is a name like any other (it is not "no name")
    return "q_" + field


def _sq(w):
    return w * w


# ---------------------------------------------------------------- build
def build(spec, failing=False, _counter=None):
    """Construct a fresh real aggregator tree through the public constructors."""
    import histogrammar as hg

    if _counter is None:
        _counter = [0]
    nid = _counter[0]
    _counter[0] += 1
    t = spec["t"]
    qk = spec.get("qk", "lambda")

    def Q():
        return quantity(spec["q"], qk, nid, failing)

    def sub(key, default=None):
        s = spec.get(key, default)
        return build(s, failing, _counter) if s is not None else None

    if t == "Count":
        if spec.get("tr") == "sq":
            return hg.Count(eval("lambda w: w * w"))
        return hg.Count()
    if t in ("Sum", "Average", "Deviate", "Minimize", "Maximize"):
        return getattr(hg, t)(Q())
    if t == "Bag":
        return hg.Bag(Q(), spec.get("range", "N"))
    if t == "Bin":
        num, low, high = spec["p"]
        q = Q()
        v = sub("v")
        kw = {}
        for k, name in (("uf", "underflow"), ("of", "overflow"), ("nf", "nanflow")):
            if k in spec:
                kw[name] = sub(k)
        return hg.Bin(num, low, high, q, v, **kw)
    if t == "SparselyBin":
        bw, origin = spec["p"]
        q = Q()
        v = sub("v")
        kw = {}
        if "nf" in spec:
            kw["nanflow"] = sub("nf")
        return hg.SparselyBin(bw, q, v, origin=origin, **kw)
    if t in ("CentrallyBin", "IrregularlyBin", "Stack"):
        q = Q()
        v = sub("v")
        kw = {}
        if "nf" in spec:
            kw["nanflow"] = sub("nf")
        return getattr(hg, t)(list(spec["p"]), q, v, **kw)
    if t == "Categorize":
        q = Q()
        return hg.Categorize(q, sub("v"))
    if t == "Fraction":
        q = Q()
        return hg.Fraction(q, sub("v"))
    if t == "Select":
        q = Q()
        return hg.Select(q, sub("v"))
    if t in ("Label", "UntypedLabel"):
        return getattr(hg, t)(**{k: build(s, failing, _counter) for k, s in spec["ch"].items()})
    if t in ("Index", "Branch"):
        return getattr(hg, t)(*[build(s, failing, _counter) for s in spec["ch"]])
    raise ValueError(t)


def node_ids(spec, _counter=None, path=()):
    """Yield (nid, path, spec) in the same order build() numbers nodes."""
    if _counter is None:
        _counter = [0]
    nid = _counter[0]
    _counter[0] += 1
    yield nid, path, spec
    t = spec["t"]
    if t in UNARY:
        yield from node_ids(spec["v"], _counter, path + ("v",))
        for k in ("uf", "of", "nf"):
            if k in spec:
                yield from node_ids(spec[k], _counter, path + (k,))
    elif t in ("Label", "UntypedLabel"):
        for k, s in spec["ch"].items():
            yield from node_ids(s, _counter, path + (k,))
    elif t in ("Index", "Branch"):
        for i, s in enumerate(spec["ch"]):
            yield from node_ids(s, _counter, path + (i,))


def fields(spec):
    """Set of record fields read anywhere in the tree."""
    out = set()
    for _, _, s in node_ids(spec):
        if "q" in s:
            out.add(s["q"])
    return out


def depth(spec):
    t = spec["t"]
    if t in UNARY:
        return 1 + max([depth(spec["v"])] + [depth(spec[k]) for k in ("uf", "of", "nf") if k in spec])
    if t in ("Label", "UntypedLabel"):
        return 1 + max(depth(s) for s in spec["ch"].values())
    if t in ("Index", "Branch"):
        return 1 + max(depth(s) for s in spec["ch"])
    return 1


def sid(spec):
    """Compact readable identifier of a spec."""
    t = spec["t"]
    qk = spec.get("qk")
    qs = ("~" + qk) if qk else ""
    if t == "Count":
        return "Count^2" if spec.get("tr") else "Count"
    if t == "Bag":
        return "Bag%s[%s]%s" % (spec.get("range", "N"), spec["q"], qs)
    if t in LEAF_TYPES:
        return "%s[%s]%s" % (t, spec["q"], qs)
    if t in UNARY:
        p = ",".join("%g" % v for v in spec.get("p", []))
        flows = "".join(";%s=%s" % (k, sid(spec[k])) for k in ("uf", "of", "nf") if k in spec)
        return "%s(%s|%s%s:%s%s)" % (t, p, spec["q"], qs, sid(spec["v"]), flows)
    if t in ("Label", "UntypedLabel"):
        return "%s{%s}" % (t, ",".join("%s=%s" % (k, sid(s)) for k, s in spec["ch"].items()))
    return "%s[%s]" % (t, ",".join(sid(s) for s in spec["ch"]))


def key(spec):
    return json.dumps(spec, sort_keys=True)


# ---------------------------------------------------------------- menus
BIN_CFG = [[2, 0.0, 2.0], [4, -1.0, 1.0]]
SPARSE_CFG = [[1.0, 0.0], [0.5, -0.25]]
CENTRAL_CFG = [[0.0, 1.0, 3.0]]
IRR_CFG = [[0.0, 1.0]]
STACK_CFG = [[0.0, 1.0]]


def leaves(field="y", core=False):
    out = [
        {"t": "Count"},
        {"t": "Sum", "q": field},
        {"t": "Average", "q": field},
        {"t": "Deviate", "q": field},
        {"t": "Minimize", "q": field},
        {"t": "Maximize", "q": field},
        {"t": "Bag", "q": field, "range": "N"},
    ]
    if not core:
        out += [
            {"t": "Count", "tr": "sq"},
            {"t": "Bag", "q": "b", "range": "S"},
            {"t": "Bag", "q": "v", "range": "N2"},
        ]
    return out


def unary(child, field="x", cfg=0, all_cfg=False):
    """Every unary primitive over `child`. field is what numeric binning reads."""
    out = []
    bins = BIN_CFG if all_cfg else [BIN_CFG[cfg % len(BIN_CFG)]]
    sparse = SPARSE_CFG if all_cfg else [SPARSE_CFG[cfg % len(SPARSE_CFG)]]
    for p in bins:
        out.append({"t": "Bin", "p": p, "q": field, "v": child})
    for p in sparse:
        out.append({"t": "SparselyBin", "p": p, "q": field, "v": child})
    out.append({"t": "CentrallyBin", "p": CENTRAL_CFG[0], "q": field, "v": child})
    out.append({"t": "IrregularlyBin", "p": IRR_CFG[0], "q": field, "v": child})
    out.append({"t": "Stack", "p": STACK_CFG[0], "q": field, "v": child})
    out.append({"t": "Categorize", "q": "c", "v": child})
    out.append({"t": "Fraction", "q": "s", "v": child})
    out.append({"t": "Select", "q": "s", "v": child})
    return out


def collections(a, b, same_type_only=False):
    out = []
    if a["t"] == b["t"] and a.get("range") == b.get("range"):
        out.append({"t": "Label", "ch": {"a": a, "b": b}})
        out.append({"t": "Index", "ch": [a, b]})
    if not same_type_only:
        out.append({"t": "UntypedLabel", "ch": {"a": a, "b": b}})
        out.append({"t": "Branch", "ch": [a, b]})
    return out


def D1():
    return leaves("x")


def D2(all_cfg=True):
    out = []
    for leaf in leaves("y"):
        out += unary(leaf, "x", all_cfg=all_cfg)
    core = leaves("x", core=True)
    for leaf in leaves("x"):
        out += collections(leaf, leaf, same_type_only=True)
    for a in core:
        for b in core:
            out.append({"t": "UntypedLabel", "ch": {"a": a, "b": b}})
            out.append({"t": "Branch", "ch": [a, b]})
    out += D2_extra()
    return out


def D2_extra():
    """Collections whose members read different fields (so that crossing members is observable), collections mixing a
    Count(transform) with quantity-bearing members, and binning nodes with a non-Count aggregator in a flow slot."""
    sx, sy = {"t": "Sum", "q": "x"}, {"t": "Sum", "q": "y"}
    c2 = {"t": "Count", "tr": "sq"}
    bx = {"t": "Bin", "p": BIN_CFG[0], "q": "x", "v": {"t": "Count"}}
    by = {"t": "Bin", "p": BIN_CFG[0], "q": "y", "v": {"t": "Count"}}
    out = [
        {"t": "Label", "ch": {"a": sx, "b": sy}},
        {"t": "UntypedLabel", "ch": {"a": sx, "b": sy}},
        {"t": "Index", "ch": [sx, sy]},
        {"t": "Branch", "ch": [sx, sy]},
        {"t": "Label", "ch": {"p": bx, "e": by}},
        {"t": "Index", "ch": [{"t": "Deviate", "q": "x"}, {"t": "Deviate", "q": "y"}]},
        {"t": "Branch", "ch": [c2, sx]},
        {"t": "Branch", "ch": [sx, c2]},
        {"t": "UntypedLabel", "ch": {"a": bx, "b": c2}},
        {"t": "UntypedLabel", "ch": {"a": c2, "b": {"t": "Average", "q": "x"}}},
    ]
    fy = {"t": "Sum", "q": "y"}
    out += [
        {"t": "Bin", "p": BIN_CFG[0], "q": "x", "v": {"t": "Count"}, "nf": fy},
        {"t": "SparselyBin", "p": SPARSE_CFG[0], "q": "x", "v": {"t": "Count"}, "nf": {"t": "Minimize", "q": "y"}},
        {"t": "CentrallyBin", "p": CENTRAL_CFG[0], "q": "x", "v": {"t": "Count"}, "nf": fy},
        {"t": "IrregularlyBin", "p": IRR_CFG[0], "q": "x", "v": {"t": "Count"}, "nf": {"t": "Average", "q": "y"}},
        {"t": "Stack", "p": STACK_CFG[0], "q": "x", "v": {"t": "Count"}, "nf": {"t": "Bag", "q": "y", "range": "N"}},
    ]
    return out


def DX():
    """Shapes beyond the small menus: many bins, three-member collections, depth 3 and 4, aggregators in every flow
    slot, mixed quantity kinds. Part of the quick tier of most checks."""
    cnt, sx, sy = {"t": "Count"}, {"t": "Sum", "q": "x"}, {"t": "Sum", "q": "y"}
    avg, dev, mn = {"t": "Average", "q": "y"}, {"t": "Deviate", "q": "y"}, {"t": "Minimize", "q": "y"}
    bin6 = lambda v, q="x": {"t": "Bin", "p": [6, 0.0, 3.0], "q": q, "v": v}  # noqa: E731
    irr4 = lambda v, q="x": {"t": "IrregularlyBin", "p": [-1.0, 0.0, 1.0, 2.0], "q": q, "v": v}  # noqa: E731
    cen5 = lambda v, q="x": {"t": "CentrallyBin", "p": [0.0, 1.0, 3.0, 7.0, 8.0], "q": q, "v": v}  # noqa: E731
    stk3 = lambda v, q="x": {"t": "Stack", "p": [0.0, 1.0, 2.0], "q": q, "v": v}  # noqa: E731
    sel = lambda v: {"t": "Select", "q": "s", "v": v}  # noqa: E731
    cat = lambda v: {"t": "Categorize", "q": "c", "v": v}  # noqa: E731
    b2 = lambda v, q="x": {"t": "Bin", "p": BIN_CFG[0], "q": q, "v": v}  # noqa: E731
    sp = lambda v, q="x": {"t": "SparselyBin", "p": SPARSE_CFG[1], "q": q, "v": v}  # noqa: E731
    out = [
        bin6(cnt), bin6(sy), irr4(cnt), irr4(avg), cen5(cnt), cen5(sy), stk3(cnt), stk3(mn), sp(dev),
        {"t": "Label", "ch": {"a": sx, "b": sy, "c": {"t": "Sum", "q": "x"}}},
        {"t": "Index", "ch": [sx, sy, {"t": "Sum", "q": "x"}]},
        {"t": "Branch", "ch": [cnt, sx, b2(cnt, "y")]},
        {"t": "UntypedLabel", "ch": {"a": cnt, "b": sy, "c": {"t": "Average", "q": "x"}}},
        sel(b2(sy)), b2(sel(cnt)), cat(b2(avg)), b2({"t": "Branch", "ch": [cnt, sy]}),
        {"t": "Fraction", "q": "s", "v": sp(cnt)},
        sel(cat(b2(sy))), b2(b2({"t": "Branch", "ch": [cnt, dev]}, "y")),
        {"t": "Label", "ch": {"a": sel(b2(sy)), "b": sel(b2(sy))}},
        {"t": "Bin", "p": BIN_CFG[0], "q": "x", "v": cnt, "uf": b2(cnt, "y"), "of": avg, "nf": cat(cnt)},
        {"t": "Bin", "p": BIN_CFG[1], "q": "x", "qk": "str", "v": {"t": "Sum", "q": "y", "qk": "named"}},
        {"t": "Select", "q": "s", "qk": "cached", "v": {"t": "Bin", "p": BIN_CFG[0], "q": "x", "qk": "def", "v": cnt}},
        {"t": "Categorize", "q": "c", "qk": "named_cached", "v": {"t": "Deviate", "q": "y", "qk": "str"}},
        # thresholds that are not increasing (Stack allows any cuts)
        {"t": "Stack", "p": [1.0, 0.0, 2.0], "q": "x", "v": cnt},
        {"t": "Stack", "p": [1.0, 0.0, 2.0], "q": "x", "v": sy},
        # a Count before a nested collection that mixes Counts with quantity-bearing members
        {"t": "Branch", "ch": [cnt, {"t": "UntypedLabel", "ch": {"a": cnt, "b": sx}}]},
        {"t": "UntypedLabel", "ch": {"a": cnt, "b": {"t": "Branch", "ch": [cnt, b2(cnt)]}, "c": sy}},
        # aggregators that receive the caller's weight array next to a sibling / under a Fraction
        {"t": "Fraction", "q": "s", "v": {"t": "Stack", "p": STACK_CFG[0], "q": "x", "v": cnt}},
        {"t": "Branch", "ch": [{"t": "Stack", "p": STACK_CFG[0], "q": "x", "v": cnt}, sx, cnt]},
        {"t": "Fraction", "q": "s", "v": irr4(cnt)},
        # named members of a collection in a name-suppressing position
        b2({"t": "Branch", "ch": [{"t": "Sum", "q": "y", "qk": "named"}, {"t": "Maximize", "q": "y", "qk": "named"}]}),
        cat({"t": "UntypedLabel", "ch": {"a": {"t": "Average", "q": "y", "qk": "named"}, "b": cnt}}),
        # a Bin with different aggregators in its flow slots as the *content* of another container (made by zero())
        cat({"t": "Bin", "p": BIN_CFG[0], "q": "x", "v": cnt, "uf": sy, "of": avg}),
        sp({"t": "Bin", "p": BIN_CFG[0], "q": "y", "v": cnt, "uf": {"t": "Sum", "q": "x"}, "of": mn}),
        # a Select as the content of every binning type
        stk3(sel(sy)), irr4(sel(cnt)), cen5(sel(cnt)), sp(sel(cnt)), cat(sel(sy)),
        # nested keyed collections whose key sets differ
        {"t": "UntypedLabel", "ch": {"a": {"t": "UntypedLabel", "ch": {"x": cnt, "y": sy}},
                                     "b": {"t": "UntypedLabel", "ch": {"z": cnt}}}},
        {"t": "Label", "ch": {"p": {"t": "UntypedLabel", "ch": {"x": cnt, "y": sy}},
                              "q": {"t": "UntypedLabel", "ch": {"z": cnt, "y": sy}}}},
        # centres given in no particular order (the partition is defined by the set of centres)
        {"t": "CentrallyBin", "p": [3.0, 0.0, 1.0], "q": "x", "v": cnt},
        {"t": "CentrallyBin", "p": [1.0, 3.0, 0.0], "q": "x", "v": sy, "nf": cnt},
        # members named like fields of the serialisation format / parameters of the constructors
        {"t": "Label", "ch": {"entries": sx, "data": sy}},
        {"t": "UntypedLabel", "ch": {"entries": cnt, "pairsAsDict": sy, "type": avg}},
        # a repeated centre (two bins with the same centre: data below it go to the first, data from it on to the second)
        {"t": "CentrallyBin", "p": [1.0, 1.0, 2.0], "q": "x", "v": sy},
    ]
    return out + EDGE()


def EDGE():
    """Degenerate but legal structural parameters: one bin, one threshold, no threshold at all, one cut, a negative
    origin, a bin width far below / an offset far above the data, a one-member collection."""
    cnt, sy, avg = {"t": "Count"}, {"t": "Sum", "q": "y"}, {"t": "Average", "q": "y"}
    return [
        {"t": "Bin", "p": [1, 0.0, 1.0], "q": "x", "v": sy},
        {"t": "Bin", "p": [1, -0.5, 0.5], "q": "x", "v": cnt, "nf": sy},
        {"t": "IrregularlyBin", "p": [0.0], "q": "x", "v": sy},
        {"t": "IrregularlyBin", "p": [], "q": "x", "v": avg},
        {"t": "Stack", "p": [0.5], "q": "x", "v": sy},
        {"t": "Stack", "p": [], "q": "x", "v": cnt},
        {"t": "CentrallyBin", "p": [0.0, 1.0], "q": "x", "v": sy},
        {"t": "SparselyBin", "p": [1.0, -3.5], "q": "x", "v": sy},
        {"t": "SparselyBin", "p": [2.0 ** -40, 0.0], "q": "x", "v": cnt},
        {"t": "Bin", "p": [2, 2.0 ** 50, 2.0 ** 50 + 2.0], "q": "x", "v": sy},
        {"t": "Label", "ch": {"only": sy}},
        {"t": "Index", "ch": [avg]},
        {"t": "Branch", "ch": [{"t": "UntypedLabel", "ch": {"only": sy}}]},
    ]


def NDX():
    """Binning on non-dyadic edges with a non-Count content (so that fill.numpy takes the generic path, which uses
    the same index formula as fill): the two fill paths must agree bit for bit even where that formula rounds."""
    sy, avg = {"t": "Sum", "q": "y"}, {"t": "Average", "q": "y"}
    return [
        {"t": "Bin", "p": [10, 0.0, 1.0], "q": "x", "v": sy},
        {"t": "Bin", "p": [5, -1.0, 1.0], "q": "x", "v": sy},
        {"t": "Bin", "p": [3, 0.0, 0.3], "q": "x", "v": avg},
        {"t": "Bin", "p": [7, -0.7, 0.7], "q": "x", "v": sy},
        {"t": "SparselyBin", "p": [0.1, 0.0], "q": "x", "v": sy},
        {"t": "SparselyBin", "p": [1.0 / 3.0, 0.05], "q": "x", "v": {"t": "Count"}},
        {"t": "IrregularlyBin", "p": [0.1, 0.2, 0.3], "q": "x", "v": sy},
        {"t": "CentrallyBin", "p": [0.1, 0.2, 0.7], "q": "x", "v": sy},
        # plain Counts: the np.histogram fast path must cut at the very midpoints fill compares with, (c1 + c2) / 2
        {"t": "CentrallyBin", "p": [0.1, 0.7, 3.3], "q": "x", "v": {"t": "Count"}},
        {"t": "CentrallyBin", "p": [0.1, 1.1], "q": "x", "v": {"t": "Count"}},
    ]


def NEST2():
    """Every binning type directly inside every binning type, with a leaf that is not a Count and with a Count (the library
    picks a specialised class from the pair of types and from what the leaves are at the time it looks)."""
    sy = {"t": "Sum", "q": "y"}
    mk = {
        "Bin": lambda v, q: {"t": "Bin", "p": BIN_CFG[0], "q": q, "v": v},
        "SparselyBin": lambda v, q: {"t": "SparselyBin", "p": SPARSE_CFG[0], "q": q, "v": v},
        "CentrallyBin": lambda v, q: {"t": "CentrallyBin", "p": CENTRAL_CFG[0], "q": q, "v": v},
        "IrregularlyBin": lambda v, q: {"t": "IrregularlyBin", "p": IRR_CFG[0], "q": q, "v": v},
        "Categorize": lambda v, q: {"t": "Categorize", "q": "c", "v": v},
    }
    out = [mk[o](mk[i](sy, "y"), "x") for o in mk for i in mk]
    out += [mk[o](mk[i]({"t": "Count"}, "y"), "x") for o in mk for i in mk]
    for leaf in ({"t": "Average", "q": "y"}, {"t": "Deviate", "q": "y"}, {"t": "Minimize", "q": "y"},
                 {"t": "Bag", "q": "y", "range": "N"}):
        out.append(mk["SparselyBin"](mk["SparselyBin"](leaf, "y"), "x"))
        out.append(mk["Bin"](mk["Bin"](leaf, "y"), "x"))
    return out


def D3_leaves():
    return [{"t": "Count"}, {"t": "Sum", "q": "y"}, {"t": "Average", "q": "y"}, {"t": "Bag", "q": "y", "range": "N"}]


def D3():
    out = []
    # every U over every D2-unary (inner numeric binning reads y) with 4 leaves
    for leaf in D3_leaves():
        for inner in unary(leaf, "y", cfg=0):
            for outer in unary(inner, "x", cfg=1):
                # avoid Categorize/Select reading the same field twice being meaningless: allowed anyway
                out.append(outer)
    # every U over every K(Count, Sum)
    cs = [{"t": "Count"}, {"t": "Sum", "q": "y"}]
    for k in collections(cs[0], cs[1]) + collections(cs[1], cs[1], same_type_only=True):
        out += unary(k, "x", cfg=0)
    # every K over two D2-unaries
    for leaf in ({"t": "Count"}, {"t": "Sum", "q": "y"}):
        us = unary(leaf, "x", cfg=0)
        for u in us:
            out += collections(u, u)
        out.append({"t": "Branch", "ch": [us[0], us[1]]})
        out.append({"t": "UntypedLabel", "ch": {"a": us[1], "b": us[5]}})
    return out


def D3_quick():
    """Fixed listed subset of D3 used by quick tiers: every U over {Bin,SparselyBin,Categorize}(Count)."""
    out = []
    inners = [
        {"t": "Bin", "p": BIN_CFG[0], "q": "y", "v": {"t": "Count"}},
        {"t": "SparselyBin", "p": SPARSE_CFG[0], "q": "y", "v": {"t": "Count"}},
        {"t": "Categorize", "q": "c", "v": {"t": "Count"}},
    ]
    for inner in inners:
        out += unary(inner, "x", cfg=1)
    return out


def D3flow():
    """D2 unaries with each non-Count aggregator in each flow slot."""
    out = []
    flows = [
        {"t": "Sum", "q": "y"},
        {"t": "SparselyBin", "p": SPARSE_CFG[0], "q": "y", "v": {"t": "Count"}},
        {"t": "CentrallyBin", "p": CENTRAL_CFG[0], "q": "y", "v": {"t": "Count"}},
        {"t": "Categorize", "q": "c", "v": {"t": "Count"}},
    ]
    for f in flows:
        for k in ("uf", "of", "nf"):
            out.append({"t": "Bin", "p": BIN_CFG[0], "q": "x", "v": {"t": "Count"}, k: f})
        out.append({"t": "Bin", "p": BIN_CFG[0], "q": "x", "v": {"t": "Sum", "q": "y"}, "uf": f, "of": f, "nf": f})
        out.append({"t": "SparselyBin", "p": SPARSE_CFG[0], "q": "x", "v": {"t": "Count"}, "nf": f})
        out.append({"t": "CentrallyBin", "p": CENTRAL_CFG[0], "q": "x", "v": {"t": "Count"}, "nf": f})
        out.append({"t": "IrregularlyBin", "p": IRR_CFG[0], "q": "x", "v": {"t": "Count"}, "nf": f})
        out.append({"t": "Stack", "p": STACK_CFG[0], "q": "x", "v": {"t": "Count"}, "nf": f})
    # sparse containers with non-Count content (matters when still empty)
    for v in ({"t": "Sum", "q": "y"}, {"t": "Bin", "p": BIN_CFG[0], "q": "y", "v": {"t": "Count"}},
              {"t": "Categorize", "q": "c", "v": {"t": "Sum", "q": "y"}}):
        out.append({"t": "SparselyBin", "p": SPARSE_CFG[0], "q": "x", "v": v})
        out.append({"t": "Categorize", "q": "c", "v": v})
    return out


def SP(maxdepth=3, leafset=None):
    """Single-path trees (C12): nestings of {Bin,SparselyBin,CentrallyBin,IrregularlyBin,Categorize,Select}."""
    if leafset is None:
        leafset = leaves("y")
    wrappers = [
        lambda c, f: {"t": "Bin", "p": BIN_CFG[0], "q": f, "v": c},
        lambda c, f: {"t": "SparselyBin", "p": SPARSE_CFG[0], "q": f, "v": c},
        lambda c, f: {"t": "CentrallyBin", "p": CENTRAL_CFG[0], "q": f, "v": c},
        lambda c, f: {"t": "IrregularlyBin", "p": IRR_CFG[0], "q": f, "v": c},
        lambda c, f: {"t": "Categorize", "q": "c", "v": c},
        lambda c, f: {"t": "Select", "q": "s", "v": c},
    ]
    out = []
    level = list(leafset)
    out += level
    # depth counts nodes on the path; wrappers at depth k read x (outermost) or y (inner)
    prev = list(leafset)
    for d in range(2, maxdepth + 1):
        cur = []
        for c in prev:
            for w in wrappers:
                cur.append(w(c, "y"))
        prev = cur
        out += cur
    # outermost numeric wrapper reads x
    fixed = []
    for s in out:
        if s["t"] in BINNING:
            s = dict(s)
            s["q"] = "x"
        fixed.append(s)
    # single-path trees whose path goes through a flow slot: a non-Count aggregator in nanflow / underflow / overflow
    fy = {"t": "Sum", "q": "y"}
    for f in (fy, {"t": "Minimize", "q": "y"}, {"t": "Bag", "q": "y", "range": "N"}):
        fixed.append({"t": "Bin", "p": BIN_CFG[0], "q": "x", "v": {"t": "Count"}, "nf": f, "uf": f, "of": f})
        fixed.append({"t": "SparselyBin", "p": SPARSE_CFG[0], "q": "x", "v": {"t": "Count"}, "nf": f})
        fixed.append({"t": "CentrallyBin", "p": CENTRAL_CFG[0], "q": "x", "v": {"t": "Count"}, "nf": f})
        fixed.append({"t": "IrregularlyBin", "p": IRR_CFG[0], "q": "x", "v": {"t": "Count"}, "nf": f})
        fixed.append({"t": "Stack", "p": STACK_CFG[0], "q": "x", "v": {"t": "Count"}, "nf": f})
    return fixed
