"""Critical-value alphabets derived from a spec (DESIGN §2.2)."""
import itertools
import math
from fractions import Fraction

from . import spec as S

NAN = float("nan")
INF = float("inf")


def _edges(node):
    t, p = node["t"], node.get("p")
    if t == "Bin":
        num, low, high = p
        return [low + i * (high - low) / num for i in range(num + 1)]
    if t == "SparselyBin":
        bw, origin = p
        return [origin + i * bw for i in (-1, 0, 1, 2)]
    if t == "CentrallyBin":
        c = sorted(p)
        # the partition's boundaries are the midpoints between centres (the centres themselves are interior points)
        return [(a + b) / 2.0 for a, b in zip(c[:-1], c[1:])]
    if t in ("IrregularlyBin", "Stack"):
        return sorted(p)
    return []


def _dedup(vals):
    out, seen = [], set()
    for v in vals:
        k = "nan" if (isinstance(v, float) and math.isnan(v)) else (type(v).__name__, v)
        if k not in seen:
            seen.add(k)
            out.append(v)
    return out


def numeric_menu(spec, field, level):
    """Values for numeric field `field`: read by binning nodes and/or numeric leaves."""
    edges, has_leaf, sparse, binned = [], False, False, False
    for _, _, n in S.node_ids(spec):
        if n.get("q") != field:
            continue
        if n["t"] in S.BINNING:
            edges += _edges(n)
            binned = True
            sparse = sparse or n["t"] == "SparselyBin"
        elif n["t"] in S.LEAF_TYPES:
            has_leaf = True
    edges = sorted(set(edges))
    if binned and not edges:
        edges = [0.0]  # (a binning node without any threshold still reads the field)
    vals = []
    if edges:
        if level == "core":
            # ordered by priority (capped alphabets are truncated from the end): lowest edge, NaN, a point below every
            # edge, highest edge, +inf, a middle edge
            vals += [edges[0], NAN, edges[0] - 1.0]
            if len(edges) > 1:
                vals.append(edges[-1])
            vals.append(INF)
            if len(edges) > 2:
                vals.append(edges[len(edges) // 2])
        else:
            vals += edges
            vals += [(a + b) / 2.0 for a, b in zip(edges[:-1], edges[1:])]
            vals += [edges[0] - 1.0, edges[-1] + 1.0, NAN, INF, -INF]
            if level == "full":
                for e in edges:
                    vals += [math.nextafter(e, -INF), math.nextafter(e, INF)]
                if sparse:
                    vals += [1e30, -1e30]
    if has_leaf:
        if level == "core":
            # (+-inf are the identities of min / max: an extreme that is infinite is still an extreme)
            vals += [0.5, NAN, -2.0, INF, -INF]
        elif edges:
            vals += [0.5, -2.0, NAN, INF]
        else:
            vals += [-2.0, -0.5, 0.0, 0.5, 1.0, 3.0, NAN, INF, -INF]
    return _dedup(vals)


def field_menu(spec, field, level):
    if field in ("x", "y"):
        return numeric_menu(spec, field, level)
    if field == "c":
        if level == "core":
            return ["a", None, "b", True]  # (a bool is a legal category, distinct from the string "True")
        return ["a", "b", "entries", "", None, NAN, True, "NaN"]  # ("entries": a category named like a field of the format)
    if field == "s":
        if level == "core":
            return [True, False, 0.5]
        return [True, False, 0.5, 2.0, -1.0, NAN]
    if field == "b":
        return ["p", "q"] if level == "core" else ["p", "q", ""]
    if field == "v":
        if level == "core":
            return [(0.0, 1.0), (NAN, 1.0), (1.0, 0.0), (INF, -INF)]
        return [(0.0, 1.0), (1.0, 0.0), (NAN, 1.0), (INF, -INF)]
    raise ValueError(field)


def fresh(rec):
    """Copy of a record in which every NaN is a new float object (as in real data streams): containers that key on the
    value must not rely on the identity of one shared NaN constant."""
    def f(v):
        if isinstance(v, float) and v != v:
            return float("nan")
        if isinstance(v, tuple):
            return tuple(f(i) for i in v)
        return v

    return {k: f(v) for k, v in rec.items()}


DEFAULTS = {"x": 0.25, "y": 0.5, "c": "a", "s": True, "b": "p", "v": (0.0, 1.0)}


def records(spec, level="core", cap=None):
    """All records over the product of the menus of the fields the tree reads.

    If cap is given and the product exceeds it, menus are shrunk level by level (mid->core) and finally the
    largest menu is truncated; the reduction is deterministic and reported by the caller via len()."""
    fs = sorted(S.fields(spec))
    menus = {f: field_menu(spec, f, level) for f in fs}
    if cap is not None:
        def size():
            n = 1
            for m in menus.values():
                n *= len(m)
            return n

        if size() > cap and level != "core":
            # shrink non-primary fields to core first
            for f in sorted(fs, key=lambda f: (f == "x", f)):
                if size() <= cap:
                    break
                menus[f] = field_menu(spec, f, "core")
        def shrink(floor):
            while size() > cap:
                cands = [f for f in menus if len(menus[f]) > floor.get(f, 2)]
                if not cands:
                    return
                f = max(cands, key=lambda f: len(menus[f]))
                menus[f] = menus[f][:-1]  # menus are ordered by priority: drop the least important value

        shrink({"x": 3})
        shrink({})
    out = []
    for combo in itertools.product(*[menus[f] for f in fs]):
        r = dict(DEFAULTS)
        r.update(dict(zip(fs, combo)))
        out.append(r)
    if not fs:
        out = [dict(DEFAULTS)]
    return out


POS_WEIGHTS = {"core": [1.0, 0.5], "mid": [1.0, 0.5, 2.0], "full": [1.0, 0.5, 2.0]}
NOOP_WEIGHTS = [0.0, -1.0, NAN]


def events(spec, level="core", cap=None, noop=True, weights=None):
    """Event menu: (record, weight) pairs. Every record with every positive weight, plus each no-op weight on
    the first record and weight -1 on every other record."""
    recs = records(spec, level, cap)
    ws = POS_WEIGHTS[level] if weights is None else weights
    out = [(r, w) for w in ws for r in recs]
    if noop:
        out += [(recs[0], w) for w in NOOP_WEIGHTS]
        # a negative weight on every other record too (a sign error needs the datum's own sign: negative selection values)
        out += [(r, -1.0) for r in recs[1:]]
    return out


# ------------------------------------------------------------------ exactness of index arithmetic
def _fr(x):
    return Fraction(x)


def exact_bin_index(num, low, high, x):
    """(exact_index, float_steps_exact) for Bin's floor(num*(x-low)/(high-low)); x finite, low<=x<high."""
    X, L, H = _fr(x), _fr(low), _fr(high)
    exact = math.floor(num * (X - L) / (H - L))
    d = x - low
    ok = _fr(d) == X - L
    m = num * d
    ok = ok and _fr(m) == num * _fr(d)
    w = high - low
    ok = ok and _fr(w) == H - L
    q = m / w
    ok = ok and _fr(q) * _fr(w) == _fr(m)
    return exact, ok


def exact_sparse_index(bw, origin, x):
    X, O, B = _fr(x), _fr(origin), _fr(bw)
    exact = math.floor((X - O) / B)
    d = x - origin
    ok = _fr(d) == X - O
    q = d / bw
    ok = ok and (not math.isinf(q)) and _fr(q) * B == _fr(d)
    return exact, ok


def show(v):
    """JSON-able, unambiguous rendering of a record/event value (non-finite / long floats as {"$f": ...})."""
    if isinstance(v, bool) or v is None or isinstance(v, (str, int)):
        return v
    if isinstance(v, float):
        if math.isnan(v):
            return {"$f": "nan"}
        if math.isinf(v):
            return {"$f": "inf" if v > 0 else "-inf"}
        return v if len(repr(v)) < 12 else {"$f": v.hex()}
    if isinstance(v, (tuple, list)):
        return [show(i) for i in v]
    if isinstance(v, dict):
        return {k: show(i) for k, i in v.items()}
    if isinstance(v, complex):
        return {"$complex": [v.real, v.imag]}
    if type(v).__name__ == "Decimal":
        return {"$decimal": str(v)}
    return repr(v)


def unshow(v):
    if isinstance(v, dict) and set(v) == {"$f"}:
        f = v["$f"]
        return float.fromhex(f) if "x" in f else float(f)
    if isinstance(v, dict) and set(v) == {"$complex"}:
        return complex(*v["$complex"])
    if isinstance(v, dict) and set(v) == {"$decimal"}:
        import decimal

        return decimal.Decimal(v["$decimal"])
    if isinstance(v, list):
        return tuple(unshow(i) for i in v)
    if isinstance(v, dict):
        return {k: unshow(i) for k, i in v.items()}
    return v
