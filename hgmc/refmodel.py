"""Reference semantics: a node's content is a function of the multiset of (record, weight) routed to it.

ref(spec, events) returns the document toJson() should produce (same shape), computed with exact rationals.
Merge = concatenation of event lists; scaling by f>0 = multiplying every root weight by f.
Kept deliberately boring; no code shared with the library.
"""
import math
from fractions import Fraction

from . import spec as S

LONG_MAX = 9223372036854775807


def F(x):
    return Fraction(x)


def _isnan(x):
    return isinstance(x, float) and math.isnan(x)


def fl(x):
    """Fraction/number -> float, non-finite -> JSON strings like the library."""
    if isinstance(x, Fraction):
        return float(x)
    if isinstance(x, float):
        if math.isnan(x):
            return "nan"
        if math.isinf(x):
            return "inf" if x > 0 else "-inf"
    return float(x)


def _wsum(pairs):
    """Exact weighted sum of (q, w) with IEEE non-finite conventions. Returns Fraction or float nan/inf."""
    qs = [q for q, _ in pairs]
    if any(_isnan(q) for q in qs):
        return float("nan")
    pos = any(isinstance(q, float) and math.isinf(q) and q > 0 for q in qs)
    neg = any(isinstance(q, float) and math.isinf(q) and q < 0 for q in qs)
    if pos and neg:
        return float("nan")
    if pos:
        return float("inf")
    if neg:
        return float("-inf")
    return sum((F(q) * F(w) for q, w in pairs), Fraction(0))


def _name(spec, suppress):
    if suppress or "q" not in spec:
        return {}
    n = S.expected_name(spec["q"], spec.get("qk", "lambda"))
    return {} if n is None else {"name": n}


def _subname(child, key):
    if "q" not in child:
        return {}
    n = S.expected_name(child["q"], child.get("qk", "lambda"))
    return {} if n is None else {key: n}


def typename(spec):
    return spec["t"]


def bin_route(node, x):
    """Key of the sub-aggregator(s) a numeric value is routed to. Returns list of keys."""
    t, p = node["t"], node["p"]
    if _isnan(x):
        return ["nan"]
    if t == "Bin":
        num, low, high = p
        if x < low:
            return ["under"]
        if x >= high:
            return ["over"]
        return [math.floor(num * (F(x) - F(low)) / (F(high) - F(low)))]
    if t == "SparselyBin":
        bw, origin = p
        if math.isinf(x):
            return [LONG_MAX if x > 0 else -LONG_MAX]
        i = math.floor((F(x) - F(origin)) / F(bw))
        return [max(-LONG_MAX, min(LONG_MAX, i))]
    if t == "CentrallyBin":
        c = sorted(p)
        for i in range(len(c) - 1):
            if x < (c[i] + c[i + 1]) / 2.0:
                return [i]
        return [len(c) - 1]
    if t == "IrregularlyBin":
        e = [float("-inf")] + list(p)
        idx = None
        for i in range(len(e)):
            hi = e[i + 1] if i + 1 < len(e) else None
            if x >= e[i] and (hi is None or not x >= hi):
                idx = i
                break
        return [] if idx is None else [idx]
    if t == "Stack":
        e = [float("-inf")] + list(p)
        return [i for i, th in enumerate(e) if x >= th]
    raise ValueError(t)


def ref(spec, evs, suppress=False):
    """Expected toJsonFragment(suppress) of a tree built from spec after the (record, weight) events."""
    evs = [(r, w) for r, w in evs if w > 0]
    t = spec["t"]
    W = sum((F(w) for _, w in evs), Fraction(0))
    ent = fl(W)
    if t == "Count":
        if spec.get("tr") == "sq":
            return fl(sum((F(w) * F(w) for _, w in evs), Fraction(0)))
        return ent
    if t in S.LEAF_TYPES and t != "Bag":
        pairs = [(float(r[spec["q"]]), w) for r, w in evs]
        out = {"entries": ent}
        if t == "Sum":
            out["sum"] = fl(_wsum(pairs))
        elif t in ("Average", "Deviate"):
            if not pairs:
                mean = float("nan")
            else:
                s = _wsum(pairs)
                mean = s / W if isinstance(s, Fraction) else s
            out["mean"] = fl(mean)
            if t == "Deviate":
                if not pairs or not isinstance(mean, Fraction):
                    var = float("nan")
                else:
                    var = sum((F(w) * F(q) * F(q) for q, w in pairs), Fraction(0)) / W - mean * mean
                out["variance"] = fl(var)
        else:
            vals = [q for q, _ in pairs if not _isnan(q)]
            if t == "Minimize":
                out["min"] = fl(min(vals)) if vals else "nan"
            else:
                out["max"] = fl(max(vals)) if vals else "nan"
        out.update(_name(spec, suppress))
        return out
    if t == "Bag":
        rng = spec.get("range", "N")
        acc = {}
        for r, w in evs:
            q = r[spec["q"]]
            if rng == "N":
                k = "nan" if _isnan(q) else float(q)
            elif rng == "S":
                k = q
            else:
                k = tuple("nan" if _isnan(qi) else float(qi) for qi in q)
            acc[k] = acc.get(k, Fraction(0)) + F(w)

        def sortkey_scalar(k):
            return (1, 0.0) if k == "nan" else (0, k)

        if rng == "N":
            items = sorted(acc.items(), key=lambda kv: sortkey_scalar(kv[0]))
        elif rng == "S":
            items = sorted(acc.items())
        else:
            items = sorted(acc.items(), key=lambda kv: tuple(sortkey_scalar(c) for c in kv[0]))

        def vj(k):
            if isinstance(k, tuple):
                return [c if c == "nan" else fl(c) for c in k]
            return k if isinstance(k, str) else fl(k)

        out = {"entries": ent, "values": [{"w": fl(w), "v": vj(k)} for k, w in items], "range": rng}
        out.update(_name(spec, suppress))
        return out
    if t in S.BINNING:
        child = spec["v"]
        routed = {}
        for r, w in evs:
            for k in bin_route(spec, float(r[spec["q"]])):
                routed.setdefault(k, []).append((r, w))
        cnt = {"t": "Count"}
        out = {"entries": ent}
        if t == "Bin":
            num, low, high = spec["p"]
            out["low"], out["high"] = float(low), float(high)
            out["values:type"] = typename(child)
            out["values"] = [ref(child, routed.get(i, []), True) for i in range(num)]
            for k, name, rk in (("uf", "underflow", "under"), ("of", "overflow", "over"), ("nf", "nanflow", "nan")):
                fs = spec.get(k, cnt)
                out[name + ":type"] = typename(fs)
                out[name] = ref(fs, routed.get(rk, []), False)
            out.update(_subname(child, "values:name"))
        else:
            fs = spec.get("nf", cnt)
            out["nanflow:type"] = typename(fs)
            out["nanflow"] = ref(fs, routed.get("nan", []), False)
            out["bins:type"] = typename(child)
            out.update(_subname(child, "bins:name"))
            if t == "SparselyBin":
                bw, origin = spec["p"]
                out["binWidth"], out["origin"] = float(bw), float(origin)
                out["bins"] = {str(k): ref(child, v, True) for k, v in routed.items() if k != "nan"}
            elif t == "CentrallyBin":
                c = sorted(spec["p"])
                out["bins"] = [{"center": float(ci), "data": ref(child, routed.get(i, []), True)}
                               for i, ci in enumerate(c)]
            else:
                e = [float("-inf")] + list(spec["p"])
                out["bins"] = [{"atleast": fl(float(ei)), "data": ref(child, routed.get(i, []), True)}
                               for i, ei in enumerate(e)]
        out.update(_name(spec, suppress))
        return out
    if t == "Categorize":
        child = spec["v"]
        routed = {}
        for r, w in evs:
            q = r[spec["q"]]
            if q is None or _isnan(q):
                q = "NaN"
            routed.setdefault(str(q), []).append((r, w))
        out = {"entries": ent, "bins:type": typename(child),
               "bins": {k: ref(child, v, True) for k, v in routed.items()}}
        out.update(_subname(child, "bins:name"))
        out.update(_name(spec, suppress))
        return out
    if t in ("Fraction", "Select"):
        child = spec["v"]
        passed = []
        for r, w in evs:
            s = r[spec["q"]]
            sw = s * w
            if sw > 0:
                passed.append((r, sw))
        if t == "Fraction":
            out = {"entries": ent, "sub:type": typename(child), "numerator": ref(child, passed, True),
                   "denominator": ref(child, evs, True)}
            out.update(_subname(child, "sub:name"))
        else:
            out = {"entries": ent, "sub:type": typename(child), "data": ref(child, passed, False)}
        out.update(_name(spec, suppress))
        return out
    if t == "Label":
        first = list(spec["ch"].values())[0]
        return {"entries": ent, "sub:type": typename(first), "data": {k: ref(s, evs, False) for k, s in spec["ch"].items()}}
    if t == "UntypedLabel":
        return {"entries": ent, "data": {k: {"type": typename(s), "data": ref(s, evs, False)}
                                         for k, s in spec["ch"].items()}}
    if t == "Index":
        return {"entries": ent, "sub:type": typename(spec["ch"][0]), "data": [ref(s, evs, False) for s in spec["ch"]]}
    if t == "Branch":
        return {"entries": ent, "data": [{"type": typename(s), "data": ref(s, evs, False)} for s in spec["ch"]]}
    raise ValueError(t)


def ref_doc(spec, evs):
    import histogrammar.version as HV

    return {"type": spec["t"], "data": ref(spec, evs, False), "version": HV.specification}


def scale_events(evs, f):
    """Reference of h*f for f>0: every weight multiplied; f<=0/NaN: empty."""
    if not (f > 0):
        return []
    return [(r, w * f) for r, w in evs if w > 0]
