"""History BFS over a pool of live aggregators (DESIGN §2.3 mode (b)).

A state is identified by the history that reaches it and rebuilt by replaying that history on fresh objects.
States are deduplicated on the digest of the whole object graph of the pool (aliasing included)."""
import collections
import pickle

from . import alphabet as A
from . import canon as C
from . import core
from . import refmodel as R
from . import spec as S


class Member:
    """Reference side of one pool member: the multiset it should contain + whether it can still be filled."""

    def __init__(self, evs=(), fillable=True):
        self.evs = list(evs)
        self.fillable = fillable


def np_batch(recs):
    from .props.c03 import to_batch

    return to_batch(recs)


def apply_op(spec, pool, refs, op, menu):
    """Apply one operation to the real pool and to the reference members. Exceptions propagate."""
    import histogrammar as hg

    k = op[0]
    if k == "fill":
        _, i, e = op
        r, w = menu["events"][e]
        pool[i].fill(A.fresh(r), w)
        refs[i].evs.append((r, w))
    elif k == "fillnp":
        _, i, b = op
        recs, ws = menu["batches"][b]
        import numpy as np

        from .props.c03 import norm_rec

        recs = [norm_rec(r) for r in recs]
        if ws is None:
            pool[i].fill.numpy(np_batch(recs))
            ws = [1.0] * len(recs)
        elif isinstance(ws, (int, float)):
            pool[i].fill.numpy(np_batch(recs), ws)  # one scalar weight for the whole batch
            ws = [float(ws)] * len(recs)
        else:
            pool[i].fill.numpy(np_batch(recs), np.array(ws, dtype=float))
        refs[i].evs.extend(zip(recs, ws))
    elif k == "add":
        _, i, j = op
        pool.append(pool[i] + pool[j])
        refs.append(Member(refs[i].evs + refs[j].evs, refs[i].fillable and refs[j].fillable))
    elif k == "iadd":
        _, i, j = op
        x = pool[i]
        x += pool[j]
        pool[i] = x
        refs[i].evs.extend(refs[j].evs)
        refs[i].fillable = refs[i].fillable and refs[j].fillable
    elif k in ("mul", "rmul"):
        _, i, f = op
        pool.append(pool[i] * f if k == "mul" else f * pool[i])
        refs.append(Member(R.scale_events(refs[i].evs, f), refs[i].fillable))
    elif k == "copy":
        pool.append(pool[op[1]].copy())
        refs.append(Member(refs[op[1]].evs, refs[op[1]].fillable))
    elif k == "zero":
        pool.append(pool[op[1]].zero())
        refs.append(Member([], refs[op[1]].fillable))
    elif k == "json":
        pool.append(hg.Factory.fromJson(pool[op[1]].toJson()))
        refs.append(Member(refs[op[1]].evs, False))
    elif k == "pickle":
        pool.append(pickle.loads(pickle.dumps(pool[op[1]])))
        refs.append(Member(refs[op[1]].evs, refs[op[1]].fillable))
    elif k == "new":
        pool.append(S.build(spec))
        refs.append(Member())
    else:
        raise ValueError(op)


def enabled(pool_refs, menu, P):
    ops = []
    n = len(pool_refs)
    kinds = menu["kinds"]
    for i in range(n):
        if pool_refs[i].fillable:
            if "fill" in kinds:
                ops += [("fill", i, e) for e in range(len(menu["events"]))]
            if "fillnp" in kinds:
                ops += [("fillnp", i, b) for b in range(len(menu.get("batches", [])))]
        for j in range(n):
            if i != j and "iadd" in kinds:
                ops.append(("iadd", i, j))
    if n < P:
        for i in range(n):
            for j in range(n):
                if "add" in kinds:
                    ops.append(("add", i, j))
            for f in menu.get("factors", []):
                if "mul" in kinds:
                    ops.append(("mul", i, f))
                if "rmul" in kinds:
                    ops.append(("rmul", i, f))
            for u in ("copy", "zero", "json", "pickle"):
                if u in kinds:
                    ops.append((u, i))
    return ops


def replay(spec, history, menu):
    """Fresh pool, then the menu's 'init' prefix (a non-initial start state), then the history."""
    pool, refs = [S.build(spec)], [Member()]
    for op in list(menu.get("init", [])) + list(history):
        apply_op(spec, pool, refs, op, menu)
    return pool, refs


def refkey(refs):
    """Canonical form of the reference side of a pool: per member the multiset of (record, weight) and fillability."""
    out = []
    for m in refs:
        evs = sorted(repr((A.show(r), A.show(w))) for r, w in m.evs if w > 0)
        out.append((tuple(evs), m.fillable))
    return tuple(out)


def bfs(spec, menu, H, P, on_state, on_error, max_states=None):
    """Breadth-first over histories of length <= H. on_state(pool, refs, history) is called on every *new* state
    (and must not mutate the pool); on_error(history, op, exc) when an operation raises. Returns stats dict."""
    # a state = (object graph of the real pool, reference multisets): two histories are merged only if BOTH agree, so a
    # history whose real effect was lost (same objects, different expected content) is still examined
    pool, refs = replay(spec, [], menu)
    seen = {(C.digest(*pool), refkey(refs))}
    frontier = collections.deque([[]])
    stats = {"states": 1, "transitions": 0, "max_depth": 0, "errors": 0, "capped": False}
    on_state(pool, refs, [])
    while frontier:
        hist = frontier.popleft()
        if len(hist) >= H:
            continue
        _, refs0 = replay(spec, hist, menu)
        for op in enabled(refs0, menu, P):
            pool, refs = replay(spec, hist, menu)
            stats["transitions"] += 1
            try:
                apply_op(spec, pool, refs, op, menu)
            except Exception as e:
                stats["errors"] += 1
                on_error(hist, op, e, pool, refs)
                # a caller can catch and continue: the state after the failed operation is still examined
                on_state(pool, None, hist + [op])
                continue
            k = (C.digest(*pool), refkey(refs))
            if k in seen:
                continue
            seen.add(k)
            stats["states"] += 1
            nh = hist + [op]
            stats["max_depth"] = max(stats["max_depth"], len(nh))
            on_state(pool, refs, nh)
            if max_states is not None and stats["states"] >= max_states:
                stats["capped"] = True
                return stats
            frontier.append(nh)
    return stats


def show_history(history, menu):
    out = []
    for op in history:
        if op[0] == "fill":
            r, w = menu["events"][op[2]]
            out.append(["fill", op[1], core.show_evs([(r, w)])[0]])
        elif op[0] == "fillnp":
            recs, ws = menu["batches"][op[2]]
            out.append(["fillnp", op[1], [core.A.show(r) for r in recs], ws])
        else:
            out.append([core.A.show(x) if isinstance(x, float) else x for x in op])
    return out
