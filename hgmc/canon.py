"""Observable normal form (norm), tolerant structural comparator (same), full object-graph digest."""
import math
import numbers
import types

TOL_KEYS = ("mean", "variance")
REL = 1e-9
ABS = 1e-9


def _num(x):
    """number or 'nan'/'inf'/'-inf' -> float; else None."""
    if isinstance(x, bool):
        return float(x)
    if isinstance(x, numbers.Real):
        return float(x)
    if isinstance(x, str) and x in ("nan", "inf", "-inf"):
        return float(x)
    return None


def norm(doc, drop_names=False):
    """Canonical hashable form of a toJson() document: numbers as float.hex, maps sorted, NaN token."""
    if isinstance(doc, dict):
        items = []
        for k in sorted(doc):
            if drop_names and (k == "name" or k.endswith(":name")):
                continue
            items.append((k, norm(doc[k], drop_names)))
        return ("D",) + tuple(items)
    if isinstance(doc, (list, tuple)):
        return ("L",) + tuple(norm(v, drop_names) for v in doc)
    if isinstance(doc, str):
        if doc in ("nan", "inf", "-inf"):
            return ("N", doc)
        return ("S", doc)
    if doc is None:
        return ("0",)
    n = _num(doc)
    if n is not None:
        if math.isnan(n):
            return ("N", "nan")
        if math.isinf(n):
            return ("N", "inf" if n > 0 else "-inf")
        return ("N", n.hex())
    return ("?", repr(doc))


def obs(h, drop_names=False):
    return norm(h.toJson(), drop_names)


def _close(a, b, rel=REL, abs_=ABS):
    if math.isnan(a) or math.isnan(b):
        return math.isnan(a) and math.isnan(b)
    if math.isinf(a) or math.isinf(b):
        return a == b
    return abs(a - b) <= max(abs_, rel * max(abs(a), abs(b)))


def _entries_of(frag):
    if isinstance(frag, dict) and "entries" in frag:
        return _num(frag["entries"])
    return _num(frag)


def diff(real, exp, path="", tol_keys=TOL_KEYS, prune_zero=False, all_tolerant=False, drop_names=False, key=None):
    """Return None if same, else (path, kind, real_value, expected_value) of the first difference.

    Numbers compared exactly except under tol_keys (or everywhere if all_tolerant).
    prune_zero: entries of maps named 'bins' whose subtree has zero entries are ignored (either side)."""
    if isinstance(exp, dict) or isinstance(real, dict):
        if not (isinstance(exp, dict) and isinstance(real, dict)):
            return (path, "shape", _short(real), _short(exp))
        rk, ek = set(real), set(exp)
        if drop_names:
            rk = {k for k in rk if not (k == "name" or k.endswith(":name"))}
            ek = {k for k in ek if not (k == "name" or k.endswith(":name"))}
        if prune_zero and key == "bins":
            rk = {k for k in rk if _entries_of(real[k]) != 0.0}
            ek = {k for k in ek if _entries_of(exp[k]) != 0.0}
        if rk != ek:
            extra, missing = sorted(rk - ek), sorted(ek - rk)
            return (path, "extra-key" if extra else "missing-key", extra or None, missing or None)
        for k in sorted(ek):
            d = diff(real[k], exp[k], path + "/" + (k if k != "" else "''"), tol_keys, prune_zero, all_tolerant, drop_names, k)
            if d:
                return d
        return None
    if isinstance(exp, (list, tuple)) or isinstance(real, (list, tuple)):
        if not (isinstance(exp, (list, tuple)) and isinstance(real, (list, tuple))):
            return (path, "shape", _short(real), _short(exp))
        if len(real) != len(exp):
            return (path, "length", len(real), len(exp))
        for i, (r, e) in enumerate(zip(real, exp)):
            d = diff(r, e, path + "/%d" % i, tol_keys, prune_zero, all_tolerant, drop_names, key)
            if d:
                return d
        return None
    rn, en = _num(real), _num(exp)
    if rn is not None and en is not None and not (isinstance(real, str) and real not in ("nan", "inf", "-inf")):
        tolerant = all_tolerant or key in tol_keys
        ok = _close(rn, en) if tolerant else (rn == en or (math.isnan(rn) and math.isnan(en)))
        if ok:
            return None
        return (path, "real=%s,expected=%s" % (_cls(rn), _cls(en)), rn, en)
    if real == exp:
        return None
    return (path, "value", _short(real), _short(exp))


def _cls(x):
    if math.isnan(x):
        return "nan"
    if math.isinf(x):
        return "inf"
    return "number"


def _short(x):
    s = repr(x)
    return s if len(s) < 200 else s[:200] + "..."


def same(real, exp, **kw):
    return diff(real, exp, **kw) is None


def path_types(path, doc_type):
    """Abstract a diff path into a locus: drop list indexes / map keys, keep field names."""
    parts = [p for p in path.split("/") if p]
    out = []
    for p in parts:
        if p.lstrip("-").isdigit():
            continue
        out.append(p)
    return "/".join(out)


# ------------------------------------------------------------------ object graph digest
_SKIP_ATTRS = {"fill", "plot", "fcn"}


_VOLATILE = {"_checkedForCrossReferences", "lastArgs", "lastKwds", "lastReturn"}


def digest(*roots, strict=True):
    """strict=False drops the once-only cross-reference flag and the CachedFcn memo (not aggregate state).

    Serialisation of the whole Python object graph reachable from roots, with identities replaced by
    first-visit ordinals (so aliasing is visible). Excludes code objects, bound fill/plot wrappers, compiled fcn."""
    from histogrammar.defs import Container
    from histogrammar.util import UserFcn

    seen = {}
    out = []

    def walk(o):
        if o is None or isinstance(o, (bool, str, int)):
            out.append(repr(o))
            return
        if isinstance(o, float):
            out.append("nan" if math.isnan(o) else o.hex())
            return
        if isinstance(o, numbers.Real):
            out.append(type(o).__name__ + ":" + repr(float(o)))
            return
        if isinstance(o, types.FunctionType):
            out.append("<fn>")
            return
        i = id(o)
        if i in seen:
            out.append("@%d" % seen[i])
            return
        if isinstance(o, (Container, UserFcn)):
            seen[i] = len(seen)
            out.append("%s#%d{" % (type(o).__name__, seen[i]))
            for k, v in o.__dict__.items():
                if k in _SKIP_ATTRS or (not strict and k in _VOLATILE):
                    continue
                out.append(k + "=")
                walk(v)
                out.append(",")
            out.append("}")
            return
        if isinstance(o, dict):
            seen[i] = len(seen)
            out.append("d#%d{" % seen[i])
            for k, v in o.items():
                walk(k)
                out.append(":")
                walk(v)
                out.append(",")
            out.append("}")
            return
        if isinstance(o, (list, tuple)):
            if isinstance(o, list):
                seen[i] = len(seen)
                out.append("l#%d[" % seen[i])
            else:
                out.append("t[")
            for v in o:
                walk(v)
                out.append(",")
            out.append("]")
            return
        out.append("<%s>" % type(o).__name__)

    for r in roots:
        walk(r)
        out.append("|")
    return "".join(out)
