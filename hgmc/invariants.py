"""Bookkeeping invariants (C05) as a recursive predicate on the public attributes of real objects."""
import math


def _close(a, b):
    if math.isnan(a) or math.isnan(b):
        return False
    if math.isinf(a) or math.isinf(b):
        return a == b
    return abs(a - b) <= 1e-9 * max(1.0, abs(a), abs(b))


def inv(node, path="root"):
    """Return None if all invariants hold below node, else (path, type, message)."""
    t = node.name
    e = node.entries
    if not isinstance(e, (int, float)) or math.isnan(e) or math.isinf(e) or e < 0:
        return (path, t, "entries=%r is not a finite non-negative number" % (e,))
    kids = []
    if t == "Bin":
        tot = sum(v.entries for v in node.values) + node.underflow.entries + node.overflow.entries + node.nanflow.entries
        if not _close(tot, e):
            return (path, t, "bins+underflow+overflow+nanflow=%r != entries=%r" % (tot, e))
        kids = [("values[%d]" % i, v) for i, v in enumerate(node.values)] + [
            ("underflow", node.underflow), ("overflow", node.overflow), ("nanflow", node.nanflow)]
    elif t == "SparselyBin":
        tot = sum(v.entries for v in node.bins.values()) + node.nanflow.entries
        if not _close(tot, e):
            return (path, t, "bins+nanflow=%r != entries=%r" % (tot, e))
        kids = [("bins[%s]" % k, v) for k, v in node.bins.items()] + [("nanflow", node.nanflow)]
    elif t in ("CentrallyBin", "IrregularlyBin"):
        tot = sum(v.entries for _, v in node.bins) + node.nanflow.entries
        if not _close(tot, e):
            return (path, t, "bins+nanflow=%r != entries=%r" % (tot, e))
        kids = [("bins[%d]" % i, v) for i, (_, v) in enumerate(node.bins)] + [("nanflow", node.nanflow)]
    elif t == "Stack":
        levels = [v.entries for _, v in node.bins]
        th = [c for c, _ in node.bins]
        if all(a < b for a, b in zip(th[:-1], th[1:])):
            for a, b in zip(levels[:-1], levels[1:]):
                if b > a + 1e-9 * max(1.0, a):
                    return (path, t, "levels not non-increasing: %r" % (levels,))
            if levels and not _close(levels[0] + node.nanflow.entries, e):
                return (path, t, "level0+nanflow=%r != entries=%r" % (levels[0] + node.nanflow.entries, e))
        kids = [("bins[%d]" % i, v) for i, (_, v) in enumerate(node.bins)] + [("nanflow", node.nanflow)]
    elif t == "Categorize":
        tot = sum(v.entries for v in node.bins.values())
        if not _close(tot, e):
            return (path, t, "sum of categories=%r != entries=%r" % (tot, e))
        kids = [("bins[%s]" % k, v) for k, v in node.bins.items()]
    elif t in ("Label", "UntypedLabel"):
        for k, v in node.pairs.items():
            if not _close(v.entries, e):
                return (path, t, "child %r entries=%r != entries=%r" % (k, v.entries, e))
        kids = [("pairs[%s]" % k, v) for k, v in node.pairs.items()]
    elif t in ("Index", "Branch"):
        for i, v in enumerate(node.values):
            if not _close(v.entries, e):
                return (path, t, "child %d entries=%r != entries=%r" % (i, v.entries, e))
        kids = [("values[%d]" % i, v) for i, v in enumerate(node.values)]
    elif t == "Fraction":
        if not _close(node.denominator.entries, e):
            return (path, t, "denominator.entries=%r != entries=%r" % (node.denominator.entries, e))
        kids = [("numerator", node.numerator), ("denominator", node.denominator)]
    elif t == "Select":
        kids = [("cut", node.cut)]
    elif t == "Bag":
        tot = sum(node.values.values())
        if not _close(tot, e):
            return (path, t, "sum of bag weights=%r != entries=%r" % (tot, e))
    for name, k in kids:
        if t == "Count":
            break
        r = inv(k, path + "." + name)
        if r:
            return r
    return None


def _kids(node):
    t = node.name
    if t == "Bin":
        return [("values[%d]" % i, v) for i, v in enumerate(node.values)] + [
            ("underflow", node.underflow), ("overflow", node.overflow), ("nanflow", node.nanflow)]
    if t in ("SparselyBin", "Categorize"):
        ks = [("bins[%s]" % k, v) for k, v in node.bins.items()]
        return ks + ([("nanflow", node.nanflow)] if t == "SparselyBin" else [])
    if t in ("CentrallyBin", "IrregularlyBin", "Stack"):
        return [("bins[%d]" % i, v) for i, (_, v) in enumerate(node.bins)] + [("nanflow", node.nanflow)]
    if t in ("Label", "UntypedLabel"):
        return [("pairs[%s]" % k, v) for k, v in node.pairs.items()]
    if t in ("Index", "Branch"):
        return [("values[%d]" % i, v) for i, v in enumerate(node.values)]
    if t == "Fraction":
        return [("numerator", node.numerator), ("denominator", node.denominator)]
    if t == "Select":
        return [("cut", node.cut)]
    return []


def views(node, path="root"):
    """Public handles on the same child must stay handles on the same child: Branch publishes its members both as
    values[i] and as attributes i0..i9 (and get(i) / __call__ for every collection). None, or (path, type, message)."""
    t = node.name
    if t == "Branch":
        for i, v in enumerate(node.values[:10]):
            h = getattr(node, "i%d" % i, None)
            if h is not v:
                return (path, t, "attribute i%d is not values[%d] (it shows %s)" % (
                    i, i, "nothing" if h is None else "entries=%r where values[%d] has entries=%r" % (h.entries, i, v.entries)))
    if t in ("Index", "Branch"):
        for i, v in enumerate(node.values):
            if node.get(i) is not v or node(i) is not v:
                return (path, t, "get(%d) / (%d) is not values[%d]" % (i, i, i))
    if t in ("Label", "UntypedLabel"):
        for k, v in node.pairs.items():
            if node.get(k) is not v or node(k) is not v:
                return (path, t, "get(%r) is not pairs[%r]" % (k, k))
    for name, k in _kids(node):
        r = views(k, path + "." + name)
        if r:
            return r
    return None


def count_invariant_exempt(node):
    """Count with a transform accumulates transformed weights: parent totals do not apply."""
    return False
