"""hgmc: bounded exhaustive explorer for histogrammar aggregator trees (see DESIGN.md)."""
import os
import sys

REPO = os.environ.get("HGMC_REPO", "/repo")


def bind_repo():
    """Make `import histogrammar` resolve to REPO's working tree and prove it."""
    if REPO not in sys.path:
        sys.path.insert(0, REPO)
    import histogrammar

    here = os.path.realpath(os.path.dirname(histogrammar.__file__))
    want = os.path.realpath(os.path.join(REPO, "histogrammar"))
    if here != want:
        raise SystemExit(f"hgmc: histogrammar imported from {here}, expected {want}")
    import histogrammar.util as U

    U.relativeTolerance = 0.0
    U.absoluteTolerance = 0.0
    return histogrammar
