"""Run bookkeeping: sharded execution, violation signatures, known findings, replay files, evidence."""
import base64
import hashlib
import json
import multiprocessing as mp
import os
import pickle
import subprocess
import sys
import time
import traceback
import warnings

VERIF = os.path.dirname(os.path.dirname(os.path.abspath(__file__)))
# HGMC_OUT redirects evidence and replay files (development runs next to a registered run); default: /verif
_OUT = os.environ.get("HGMC_OUT", VERIF)
EVIDENCE_DIR = os.path.join(_OUT, "evidence")
REPLAY_DIR = os.path.join(_OUT, "replays")
KNOWN = os.path.join(VERIF, "known_findings.json")
NWORKERS = int(os.environ.get("HGMC_WORKERS", "16"))

LEVELS = {
    "C12": "fault_enumeration", "C15": "fault_enumeration",
    "C13": "exploration", "C14": "exploration", "C17": "exploration",
}


def level_of(prop):
    return LEVELS.get(prop, "model_checking")


# ------------------------------------------------------------------ violations
class V(dict):
    """A violation: sig (root-cause signature), driver, args (JSON-able replay arguments), detail."""


def violation(prop, driver, locus, kind, args, detail):
    sig = "%s|%s|%s|%s" % (prop, driver, locus, kind)
    return V(sig=sig, property=prop, driver=driver, args=args, detail=detail)


def exc_locus(exc):
    """Innermost frame inside histogrammar/ and the exception type."""
    tb = traceback.extract_tb(exc.__traceback__)
    where = None
    t = exc.__traceback__
    frames = []
    while t is not None:
        frames.append(t.tb_frame)
        t = t.tb_next
    for fr in frames:
        fn = fr.f_code.co_filename
        if "/histogrammar/" in fn:
            where = getattr(fr.f_code, "co_qualname", fr.f_code.co_name)
    if where is None and tb:
        where = tb[-1].name
    return "%s:%s" % (where, type(exc).__name__)


_COLL = {
    "Bin": {"values": ("list", "values:type"), "underflow": ("frag", "underflow:type"),
            "overflow": ("frag", "overflow:type"), "nanflow": ("frag", "nanflow:type")},
    "SparselyBin": {"bins": ("map", "bins:type"), "nanflow": ("frag", "nanflow:type")},
    "CentrallyBin": {"bins": ("wlist", "bins:type"), "nanflow": ("frag", "nanflow:type")},
    "IrregularlyBin": {"bins": ("wlist", "bins:type"), "nanflow": ("frag", "nanflow:type")},
    "Stack": {"bins": ("wlist", "bins:type"), "nanflow": ("frag", "nanflow:type")},
    "Categorize": {"bins": ("map", "bins:type")},
    "Fraction": {"numerator": ("frag", "sub:type"), "denominator": ("frag", "sub:type")},
    "Select": {"data": ("frag", "sub:type")},
    "Label": {"data": ("map", "sub:type")},
    "Index": {"data": ("list", "sub:type")},
    "UntypedLabel": {"data": ("tmap", None)},
    "Branch": {"data": ("tlist", None)},
}


def doc_locus(doc, path):
    """'<Type of the deepest node owning the differing field>.<field>' for a path into a toJson document."""
    parts = [p for p in path.split("/") if p]
    try:
        if not parts or parts[0] != "data":
            return "header.%s" % (parts[0] if parts else "")
        typ, cur = doc["type"], doc["data"]
        i = 1
        field = "data"
        while i < len(parts):
            p = parts[i]
            field = p
            kinds = _COLL.get(typ, {})
            if not isinstance(cur, dict) or p not in kinds or p not in cur:
                break
            kind, tkey = kinds[p]
            if kind == "frag":
                typ, cur = cur[tkey], cur[p]
                i += 1
                field = "(whole)"
                continue
            if i + 1 >= len(parts):
                break
            k = parts[i + 1]
            coll = cur[p]
            elem = coll[int(k)] if isinstance(coll, (list, tuple)) else coll["" if k == "''" else k]
            if kind in ("list", "map"):
                typ, cur = cur[tkey], elem
                i += 2
                field = "(whole)"
            elif kind == "wlist":
                if i + 2 < len(parts) and parts[i + 2] == "data":
                    typ, cur = cur[tkey], elem["data"]
                    i += 3
                    field = "(whole)"
                else:
                    field = p + "." + (parts[i + 2] if i + 2 < len(parts) else "element")
                    break
            else:  # tmap / tlist
                if i + 2 < len(parts) and parts[i + 2] == "data":
                    typ, cur = elem["type"], elem["data"]
                    i += 3
                    field = "(whole)"
                else:
                    field = p + "." + (parts[i + 2] if i + 2 < len(parts) else "element")
                    break
        return "%s.%s" % (typ, field)
    except Exception:
        last = [p for p in parts if not p.lstrip("-").isdigit()]
        return "?.%s" % (last[-1] if last else "")


# ------------------------------------------------------------------ parallel map
def _init_worker():
    warnings.simplefilter("ignore")
    try:
        # a shard that asks the library for something absurd (a dense view over 2**63 sparse indexes) gets a MemoryError
        # it can handle, not the kernel's OOM killer taking the whole run down
        import resource

        lim = int(os.environ.get("HGMC_SHARD_MEM_GB", "8")) << 30
        resource.setrlimit(resource.RLIMIT_AS, (lim, lim))
    except Exception:
        pass
    import numpy as np

    np.seterr(all="ignore")


class HorizonExceeded(BaseException):
    pass


def _alarm(signum, frame):
    raise HorizonExceeded()


# every shard has an explicit horizon: on the unchanged tree the slowest shard of any check takes well under a minute on
# one core; a shard that is still running after HORIZON seconds of its own is not exploring, it is stuck in the library
HORIZON = int(os.environ.get("HGMC_HORIZON", "600"))  # ./check sets 600 s (quick) / 3600 s (thorough) unless HGMC_HORIZON is given
CURRENT_PROP = [None]


def _call(packed):
    fn, idx, item = packed
    import signal

    try:
        signal.signal(signal.SIGALRM, _alarm)
        signal.alarm(HORIZON)
    except (ValueError, AttributeError):
        pass
    try:
        return _call_inner(fn, idx, item)
    except HorizonExceeded:
        acc = Acc()
        shard = {"fn": "%s:%s" % (fn.__module__, fn.__qualname__),
                 "item_pickle_b64": base64.b64encode(pickle.dumps(item)).decode(), "item": repr(item)[:400]}
        prop = CURRENT_PROP[0] or fn.__module__.rsplit(".", 1)[-1].upper()
        v = violation(prop, "__shard__", "shard %s" % fn.__qualname__, "did-not-finish-within-%ds" % HORIZON,
                      dict(shard), {"item": repr(item)[:400]})
        v["shard"] = shard
        acc.add(v)
        return idx, acc, None
    finally:
        try:
            signal.alarm(0)
        except (ValueError, AttributeError):
            pass


def _call_inner(fn, idx, item):
    try:
        res = fn(item)
        if getattr(res, "viol", None):
            # remember which shard saw each violation: if the single recorded case does not reproduce on its own (state
            # the library kept from an earlier case of the same shard), the whole shard is the replayable witness
            shard = {"fn": "%s:%s" % (fn.__module__, fn.__qualname__),
                     "item_pickle_b64": base64.b64encode(pickle.dumps(item)).decode(), "item": repr(item)[:400]}
            for v in res.viol.values():
                v.setdefault("shard", shard)
        return idx, res, None
    except HorizonExceeded:
        raise
    except BaseException:  # harness bug: surface it, never swallow
        return idx, None, traceback.format_exc()


def pmap(fn, items, seed=0, fresh=True):
    """Run fn over items in a fork pool; results returned in item order regardless of scheduling.
    `seed` only rotates the order in which shards are *started*. fresh=True (default): every item runs in a process
    newly forked from the (pristine) parent, so that state the library keeps at module or class level cannot travel
    from one item to the next and what a shard sees does not depend on which shards ran before it in the same worker."""
    items = list(items)
    if os.environ.get("HGMC_ONLY") == "edge":
        # development switch (never set by ./check's registered commands): keep only the shards of the trees added last
        from . import spec as _S

        keep = {_S.key(t) for t in _S.EDGE() + _S.NDX()[-2:]}

        def _specs(x, d=0):
            if isinstance(x, dict) and "t" in x:
                yield x
            elif isinstance(x, (tuple, list)) and d < 3:
                for y in x:
                    yield from _specs(y, d + 1)

        items = [it for it in items if any(_S.key(t) in keep for t in _specs(it))]
    n = len(items)
    order = list(range(n))
    if n:
        r = seed % n
        order = order[r:] + order[:r]
    results = [None] * n
    if NWORKERS <= 1 or n <= 1:
        _init_worker()
        for i in order:
            _, res, err = _call((fn, i, items[i]))
            if err:
                raise RuntimeError("worker failed:\n" + err)
            results[i] = res
        return results
    # one freshly forked process per shard (not multiprocessing.Pool: its worker replacement can deadlock, and a shard
    # must start from the parent's pristine state anyway); results come back through files of a run-private directory
    import shutil
    import tempfile

    base = os.path.join(os.environ.get("HGMC_OUT") or VERIF, ".scratch")
    os.makedirs(base, exist_ok=True)
    box = tempfile.mkdtemp(prefix="pmap_", dir=base)
    pending = list(order)
    running = {}
    sys.stdout.flush()
    sys.stderr.flush()
    try:
        while pending or running:
            while pending and len(running) < NWORKERS:
                i = pending.pop(0)
                pid = os.fork()
                if pid == 0:
                    code = 1
                    try:
                        _init_worker()
                        out = _call((fn, i, items[i]))
                        tmp = os.path.join(box, "%d.tmp" % i)
                        with open(tmp, "wb") as f:
                            pickle.dump(out, f, protocol=pickle.HIGHEST_PROTOCOL)
                        os.rename(tmp, os.path.join(box, "%d.pkl" % i))
                        code = 0
                    except BaseException:
                        try:
                            with open(os.path.join(box, "%d.err" % i), "w") as f:
                                f.write(traceback.format_exc())
                        except Exception:
                            pass
                    finally:
                        os._exit(code)
                running[pid] = i
            pid, status = os.wait()
            if pid not in running:
                continue
            i = running.pop(pid)
            path = os.path.join(box, "%d.pkl" % i)
            if not os.path.exists(path):
                errp = os.path.join(box, "%d.err" % i)
                msg = open(errp).read() if os.path.exists(errp) else "no result (exit status %r)" % (status,)
                raise RuntimeError("worker for shard %d failed:\n%s" % (i, msg))
            with open(path, "rb") as f:
                idx, res, err = pickle.load(f)
            os.unlink(path)
            if err:
                raise RuntimeError("worker failed:\n" + err)
            results[idx] = res
    finally:
        for pid in list(running):
            try:
                os.kill(pid, 9)
                os.waitpid(pid, 0)
            except OSError:
                pass
        shutil.rmtree(box, ignore_errors=True)
    return results


# ------------------------------------------------------------------ per-shard accumulator
class Acc:
    """Counters and violations collected by one shard; mergeable."""

    def __init__(self):
        self.c = {}
        self.viol = {}  # sig -> first violation
        self.vcount = {}
        self.samples = []
        self.sets = {}

    def n(self, key, k=1):
        self.c[key] = self.c.get(key, 0) + k

    def add(self, v):
        if v is None:
            return
        if isinstance(v, list):
            for i in v:
                self.add(i)
            return
        s = v["sig"]
        self.vcount[s] = self.vcount.get(s, 0) + 1
        if s not in self.viol:
            self.viol[s] = v

    def sample(self, s, limit=3):
        if len(self.samples) < limit:
            self.samples.append(s)

    def distinct(self, name, h):
        self.sets.setdefault(name, set()).add(h)

    def merge(self, o):
        for k, v in o.c.items():
            self.c[k] = self.c.get(k, 0) + v
        for s, v in o.viol.items():
            if s not in self.viol:
                self.viol[s] = v
        for s, k in o.vcount.items():
            self.vcount[s] = self.vcount.get(s, 0) + k
        for s in o.samples:
            if len(self.samples) < 6:
                self.samples.append(s)
        for k, v in o.sets.items():
            self.sets.setdefault(k, set()).update(v)
        return self

    def freeze_sets(self):
        """Replace sets of hashes by compact digests before pickling across processes (keeps distinct counting
        exact across shards because digests are content hashes)."""
        for k in list(self.sets):
            self.sets[k] = {h if isinstance(h, (int, str)) and not isinstance(h, bool) else _h(h) for h in self.sets[k]}
        return self


def _h(x):
    return hashlib.blake2b(repr(x).encode(), digest_size=12).hexdigest()


def hkey(x):
    return _h(x)


# ------------------------------------------------------------------ known findings
def load_known():
    if not os.path.exists(KNOWN):
        return {"open": [], "fixed": []}
    with open(KNOWN) as f:
        return json.load(f)


# ------------------------------------------------------------------ finishing a run
def _jsonable(x):
    try:
        json.dumps(x)
        return x
    except (TypeError, ValueError):
        return json.loads(json.dumps(x, default=repr))


def write_replay(v):
    d = os.path.join(REPLAY_DIR, v["property"])
    os.makedirs(d, exist_ok=True)
    name = hashlib.blake2b(v["sig"].encode(), digest_size=6).hexdigest()
    path = os.path.join(d, name + ".json")
    with open(path, "w") as f:
        json.dump(_jsonable({"property": v["property"], "driver": v["driver"], "sig": v["sig"], "args": v["args"],
                             "detail": v["detail"]}), f, indent=1, sort_keys=True)
    return path


def replay_in_subprocess(path):
    """Run ./check --replay twice in fresh processes; return list of the signature sets observed."""
    outs = []
    for _ in range(2):
        p = subprocess.run([os.path.join(VERIF, "check"), "--replay", path], capture_output=True, text=True,
                           timeout=600)
        sigs = sorted(l.split("sig=", 1)[1].strip() for l in p.stdout.splitlines() if l.startswith("REPLAY-VIOLATION"))
        outs.append((p.returncode, sigs))
    return outs


def finish(prop, tier, seed, acc, t0, coverage, assumptions, confirm=True):
    """Match violations against known findings, write replay files and evidence, print verdict lines.
    Returns the process exit code."""
    known = load_known()
    open_sigs = {e["sig"]: e for e in known.get("open", []) if e.get("property") == prop}
    new, listed = [], []
    for sig in sorted(acc.viol):
        (listed if sig in open_sigs else new).append(acc.viol[sig])
    for v in listed:
        e = open_sigs[v["sig"]]
        print("KNOWN-FINDING: property=%s %s [sig=%s; %d case(s) this run]" % (prop, e["what"], v["sig"],
                                                                              acc.vcount[v["sig"]]))
    code = 0
    nondet = False
    d = os.path.join(REPLAY_DIR, prop)
    if os.path.isdir(d):
        for f in os.listdir(d):
            if f.endswith(".json"):
                os.unlink(os.path.join(d, f))
    for i, v in enumerate(new):
        path = write_replay(v)
        if confirm and i < 4 and v.get("args") is not None and "|did-not-finish-within-" not in v["sig"]:
            outs = replay_in_subprocess(path)
            ok = all(v["sig"] in sigs for _, sigs in outs) and outs[0] == outs[1]
            if not ok and v.get("shard"):
                # the recorded case alone does not show it: replay the shard that saw it (same cases, same order, fresh process)
                path = write_replay(dict(v, driver="__shard__", args=dict(v["shard"], case=v.get("args"))))
                outs2 = replay_in_subprocess(path)
                ok = all(v["sig"] in sigs for _, sigs in outs2) and outs2[0] == outs2[1]
                if ok:
                    print("  (needs the earlier cases of its shard to manifest: the replay file re-runs the shard)")
                else:
                    outs = outs2
            if not ok:
                nondet = True
                print("NONDETERMINISM property=%s sig=%s replays=%r" % (prop, v["sig"], outs))
                continue
        print("VIOLATION property=%s replay=%s" % (prop, path))
        print("  sig=%s cases=%d" % (v["sig"], acc.vcount[v["sig"]]))
        print("  detail=%s" % json.dumps(_jsonable(v["detail"]), sort_keys=True)[:1500])
        code = 1
    if nondet and code == 0:
        code = 2
    cov = dict(coverage)
    cov["counters"] = dict(sorted(acc.c.items()))
    cov["distinct_sets"] = {k: len(v) for k, v in sorted(acc.sets.items())}
    cov.setdefault("samples", acc.samples[:6] or ["(none recorded)"])
    cov["known_findings_seen"] = sorted(v["sig"] for v in listed)
    cov["new_violation_sigs"] = sorted(v["sig"] for v in new)
    import numpy
    import pandas

    cov["versions"] = {"python": sys.version.split()[0], "numpy": numpy.__version__, "pandas": pandas.__version__}
    ev = {
        "property_id": prop,
        "tier": tier,
        "seed": seed,
        "level": level_of(prop),
        "coverage": _jsonable(cov),
        "assumptions": assumptions,
        "wall_s": round(time.time() - t0, 3),
        "violations": len(new),
    }
    os.makedirs(EVIDENCE_DIR, exist_ok=True)
    tmp = os.path.join(EVIDENCE_DIR, prop + ".json.tmp")
    with open(tmp, "w") as f:
        json.dump(ev, f, indent=1, sort_keys=True)
    os.replace(tmp, os.path.join(EVIDENCE_DIR, prop + ".json"))
    print("%s tier=%s: %s  [%.1fs]  %s" % (prop, tier, "OK" if code == 0 else "FAIL", time.time() - t0,
                                          " ".join("%s=%s" % (k, cov[k]) for k in
                                                   ("states", "transitions", "evaluations", "distinct_nontrivial")
                                                   if k in cov)))
    return code
