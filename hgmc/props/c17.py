"""C17 — user-function wrappers preserve behaviour: named/cached/serializable/strings. DESIGN §3 C17."""
import collections
import itertools
import math

import numpy as np

from .. import alphabet as A
from .. import canon as C
from .. import core
from .. import framework as FW

PROP = "C17"


def _base_def(x, k=1):
    return (x["x"] if isinstance(x, dict) else x) * k


BASES = {
    "lambda": lambda: eval('lambda x, k=1: (x["x"] if isinstance(x, dict) else x) * k'),
    "def": lambda: _base_def,
    "str": lambda: "x * 2",
}
IMPLICIT = {"lambda": None, "def": "_base_def", "str": "x * 2"}


# ------------------------------------------------------------------ (i) wrapper algebra
def apply_word(base_kind, word):
    """Apply the wrappers of `word` (innermost first) to a fresh base function.
    Returns (result or None, exception or None, model) where model = expected (cached?, name) or 'ValueError'."""
    from histogrammar.util import cached, named, serializable

    f = BASES[base_kind]()
    is_user, name, is_cached = False, None, False
    model = None
    for w in word:
        if model == "ValueError":
            break
        if w == "serializable":
            if not is_user:
                name = name if name is not None else IMPLICIT[base_kind]
            is_user = True
        elif w == "cached":
            if not is_user:
                name = name if name is not None else IMPLICIT[base_kind]
            is_user, is_cached = True, True
        else:
            if is_user and name is not None:
                model = "ValueError"
                break
            name, is_user = w[1], True
    if model != "ValueError":
        model = (is_cached, name)
    try:
        for w in word:
            if w == "serializable":
                f = serializable(f)
            elif w == "cached":
                f = cached(f)
            else:
                f = named(w[1], f)
        return f, None, model
    except Exception as e:
        return None, e, model


def check_words(base_kind, maxlen):
    from histogrammar.util import CachedFcn, UserFcn

    out = []
    n = 0
    groups = {}
    alphabet = ["serializable", "cached", ("named", "n1"), ("named", "n2")]
    for L in range(1, maxlen + 1):
        for word in itertools.product(alphabet, repeat=L):
            n += 1
            args = {"base": base_kind, "word": [list(w) if isinstance(w, tuple) else w for w in word]}
            r, exc, model = apply_word(base_kind, word)
            if model == "ValueError":
                if not isinstance(exc, ValueError):
                    out.append(FW.violation(PROP, "words", "named() on an already named %s" % base_kind,
                                            "second-name-accepted" if exc is None else "wrong-exception", args,
                                            {"exception": repr(exc), "name": getattr(r, "name", None)}))
                continue
            if exc is not None:
                out.append(core.v_exc(PROP, "words", "valid wrapper order on %s raised" % base_kind, exc, args))
                continue
            want_cls = CachedFcn if model[0] else UserFcn
            if type(r) is not want_cls or r.name != model[1]:
                out.append(FW.violation(PROP, "words", "%s wrappers on %s" % ("cached" if model[0] else "plain", base_kind),
                                        "wrong-class-or-name", args, {"class": type(r).__name__, "name": r.name,
                                                                      "expected": [want_cls.__name__, model[1]]}))
                continue
            g = groups.setdefault(model, (r, args))
            try:
                same = (r == g[0]) and (g[0] == r) and hash(r) == hash(g[0])
            except Exception as e:
                out.append(core.v_exc(PROP, "words", "==/hash of wrappers raised", e, args))
                continue
            if not same:
                out.append(FW.violation(PROP, "words", "order of wrappers on %s" % base_kind, "unequal-wrappers", args,
                                        {"other_word": g[1]["word"]}))
    return out, n


# ------------------------------------------------------------------ (ii) call sequences
_PARENT = np.array([1.0, 2.0, 5.0, 7.0])
_PARENT2 = np.array([[1.0, 3.0], [2.0, 9.0]])


def arg_menu():
    a1 = np.array([1.0, 2.0])
    return [((1.0,), {}), ((float("1.0"),), {}), ((2.0,), {}), ((a1,), {}), ((np.array([1.0, 2.0]),), {}),
            ((np.array([1.0, 3.0]),), {}), (({"x": 1.0},), {}), (({"x": 1.0},), {}), (({"x": 2.0},), {}),
            ((1.0,), {"k": 2}), ((1.0,), {"k": 3}), ((np.array([1.0, 2.0, 3.0]),), {}),
            ((None,), {}), (({"y": 1.0},), {}),  # these two make the function raise (TypeError / KeyError)
            ((1.0, 2), {}), ((1.0, 3), {}), ((2.0, 2), {}),  # second positional argument (a prefix of it is another call)
            ((np.array([2.0, 2.0]),), {}), ((np.array([]),), {}),  # arrays that compare "all equal" to a scalar
            (({"x": np.array([1.0, 2.0])},), {}), (({"x": np.array([1.0, 2.0])},), {}), (({"x": np.array([1.0, 3.0])},), {}),
            (({"x": np.array([])},), {}),  # dicts of arrays (what fill.numpy hands to a quantity): equal, different, empty
            # views of one parent buffer: same dtype, shape and strides, different offset (successive chunks / columns)
            ((_PARENT[0:2],), {}), ((_PARENT[2:4],), {}), ((_PARENT2[:, 0],), {}), ((_PARENT2[:, 1],), {}),
            (({"x": _PARENT[0:2]},), {}), (({"x": _PARENT[2:4]},), {})]


def same_value(a, b):
    if isinstance(a, np.ndarray) or isinstance(b, np.ndarray):
        return isinstance(a, np.ndarray) and isinstance(b, np.ndarray) and a.shape == b.shape and bool(np.array_equal(a, b))
    return type(a) is type(b) and a == b


def wrappers_for_calls():
    from histogrammar.util import cached, named, serializable

    f = BASES["lambda"]
    return {
        "serializable": lambda: serializable(f()),
        "named": lambda: named("n", f()),
        "cached": lambda: cached(f()),
        "cached(named)": lambda: cached(named("n", f())),
        "named(cached)": lambda: named("n", cached(f())),
        "cached(def)": lambda: cached(_base_def),
    }


def check_calls(wname, seq):
    args = {"wrapper": wname, "calls": list(seq)}
    menu = arg_menu()
    raw = BASES["lambda"]()
    try:
        w = wrappers_for_calls()[wname]()
        for step, i in enumerate(seq):
            a, k = menu[i]
            try:
                want = ("ok", raw(*a, **k))
            except Exception as e:
                want = ("exc", type(e).__name__)
            try:
                got = ("ok", w(*a, **k))
            except Exception as e:
                got = ("exc", type(e).__name__)
            if want[0] == "exc" or got[0] == "exc":
                if got != want:
                    return [FW.violation(PROP, "calls", ("cached" if "cached" in wname else wname.split("(")[0]) + " wrapper", "wrong-exception-behaviour", args,
                                         {"step": step, "got": repr(got)[:80], "expected": repr(want)[:80]})]
                continue
            got, want = got[1], want[1]
            if not same_value(got, want):
                return [FW.violation(PROP, "calls", wname.split("(")[0] + " wrapper", "wrong-return-value", args,
                                     {"step": step, "got": repr(got)[:80], "expected": repr(want)[:80]})]
    except Exception as e:
        return [core.v_exc(PROP, "calls", "call through %s wrapper raised" % wname.split("(")[0], e, args)]
    return []


REUSE_KINDS = ("array element", "array slice", "dict value", "dict-of-arrays element", "dict array replaced", "attribute record")


class _Rec:
    """A record object whose field is an attribute (what a row iterator that reuses one object per row hands out)."""

    def __init__(self, x):
        self.x = x

    def __mul__(self, k):
        return self.x * k
REUSE_STEPS = ("mutate", "same", "fresh-equal")


def check_reused(wname, kind, steps):
    """One argument object reused across calls and changed in place between them (a preallocated chunk buffer, a record
    dict that a loop updates): the wrapper must return what the function returns for the argument *as it is now*.
    steps: what happens before each further call - 'mutate' (change the object in place), 'same' (leave it), or
    'fresh-equal' (pass a new object with the current content)."""
    args = {"wrapper": wname, "kind": kind, "steps": list(steps)}
    raw = BASES["lambda"]()

    def make():
        if kind in ("array element", "array slice"):
            return np.array([1.0, 2.0, 3.0])
        if kind == "dict value":
            return {"x": 1.0}
        if kind == "attribute record":
            return _Rec(1.0)
        return {"x": np.array([1.0, 2.0, 3.0])}

    def mutate(o, n):
        if kind == "array element":
            o[0] = 10.0 + n
        elif kind == "array slice":
            o[:] = o[::-1].copy() + n
        elif kind == "dict value":
            o["x"] = 10.0 + n
        elif kind == "attribute record":
            o.x = 10.0 + n
        elif kind == "dict-of-arrays element":
            o["x"][1] = 10.0 + n
        else:
            o["x"] = np.array([10.0 + n, 0.0, 1.0])

    def snap(v):
        return v.copy() if isinstance(v, np.ndarray) else v

    try:
        w = wrappers_for_calls()[wname]()
        o = make()
        w(o)
        for n, st in enumerate(steps):
            if st == "mutate":
                mutate(o, n)
                arg = o
            elif st == "same":
                arg = o
            else:
                arg = {k: snap(v) for k, v in o.items()} if isinstance(o, dict) else (_Rec(o.x) if isinstance(o, _Rec) else o.copy())
            want = snap(raw(arg))
            got = w(arg)
            if not same_value(got, want):
                return [FW.violation(PROP, "reused-argument", ("cached" if "cached" in wname else wname.split("(")[0]) + " wrapper" +
                                     (" (record object)" if kind == "attribute record" else ""),
                                     "stale-result-for-an-argument-changed-in-place" if st == "mutate" else
                                     "wrong-result-for-an-unchanged-or-fresh-argument", args,
                                     {"step": n, "got": repr(got)[:80], "expected": repr(want)[:80]})]
    except Exception as e:
        return [core.v_exc(PROP, "reused-argument", "call through %s wrapper raised" % wname.split("(")[0], e, args)]
    return []


# ------------------------------------------------------------------ (iii) string expressions
ATOMS = ["x", "y", "2", "0.5"]
BINOPS = ["+", "-", "*", "/", "<", ">=", " and ", " or "]


def expressions(depth):
    level = list(ATOMS)
    allx = list(level)
    for _ in range(depth):
        new = []
        for e in level:
            new.append("-(%s)" % e)
            new.append("sqrt(abs(%s))" % e)
            # Python's builtins keep their meaning inside an expression (numpy has functions of the same names)
            new.append("max(%s, 0)" % e)
            new.append("min(%s, 0.5)" % e)
            new.append("round(%s, 1)" % e)
            new.append("int(%s)" % e)
        for a, b in itertools.product(allx, allx):
            for op in BINOPS:
                new.append("(%s)%s(%s)" % (a, op, b))
        level = new
        allx = allx + new
    seen, out = set(), []
    for e in allx:
        if e not in seen:
            seen.add(e)
            out.append(e)
    return out


class _Row(dict):
    """A user's record class derived from dict."""


class Rec:
    def __init__(self, x, y):
        self.x = x
        self.y = y


def free_vars(expr):
    c = compile(expr, "<e>", "eval")
    return sorted(set(c.co_names) & {"x", "y"})


def py_eval(expr, x, y):
    ns = {"sqrt": math.sqrt, "abs": abs, "max": max, "min": min, "round": round, "int": int, "x": x, "y": y}
    try:
        return ("ok", eval(expr, {"__builtins__": {}}, ns))
    except Exception as e:
        return ("exc", type(e).__name__)


VALUES = [(1.0, 2.0), (0.0, -0.5)]


def check_expr(expr, order):
    """Evaluate one expression through the library on the three record representations in the given order."""
    from histogrammar.util import serializable

    from histogrammar.util import named

    args = {"expr": expr, "order": list(order)}
    fv = free_vars(expr)
    f = serializable(expr)
    # the same expression under an explicit name that other wrappers in this process also use, and under a name that
    # is itself the text of another expression: names must never decide what is evaluated
    g = named("q", expr)
    other = "y" if expr.strip() != "y" else "x"
    k = named(other, expr)
    plain_other = serializable(other)
    for rep in order:
        for x, y in VALUES:
            if rep == "dict":
                d = {"x": x, "y": y}
            elif rep == "attr":
                d = Rec(x, y)
            else:
                if len(fv) > 1:
                    continue
                d = x if fv == ["x"] or not fv else y
            want = py_eval(expr, x, y)
            flavours = [(rep, d)]
            if rep == "dict":
                # any mapping that is a dict is a dict record
                flavours += [("OrderedDict", collections.OrderedDict(d)), ("dict subclass", _Row(d))]
            for fl, dd in flavours:
                try:
                    got = ("ok", f(dd))
                except Exception as e:
                    got = ("exc", type(e).__name__)
                ok = got[0] == want[0] and (got[1] == want[1] if got[0] == "exc" else same_num(got[1], want[1]))
                if not ok:
                    return [FW.violation(PROP, "expr", "string expression on %s record" % fl, "differs-from-python-eval", args,
                                         {"rep": fl, "x": x, "y": y, "got": repr(got), "expected": repr(want)})]
            if rep == "dict":
                for nm, w_, exp_ in (("named('q', expr)", g, want), ("named(<other expr>, expr)", k, want),
                                     ("plain <other expr> after a wrapper was named like it", plain_other,
                                      py_eval(other, x, y))):
                    try:
                        got2 = ("ok", w_(d))
                    except Exception as e:
                        got2 = ("exc", type(e).__name__)
                    ok2 = got2[0] == exp_[0] and (got2[1] == exp_[1] if got2[0] == "exc" else same_num(got2[1], exp_[1]))
                    if not ok2:
                        return [FW.violation(PROP, "expr", "named string expression", "name-decides-evaluation", args,
                                             {"wrapper": nm, "x": x, "y": y, "got": repr(got2), "expected": repr(exp_)})]
    return []


# ------------------------------------------------------------------ (iii-b) record fields named like library/math names
FIELD_NAMES = ["e", "pi", "tau", "inf", "nan", "gamma", "exp", "log", "sqrt", "np", "numpy", "math", "abs", "min", "sum",
               "datum", "context", "x"]


def check_field_name(name, other):
    """A string expression reads the record's fields: a field called like a constant or function that the library also
    puts into the evaluation namespace is still the field (dict records, attribute records, dicts of arrays)."""
    from histogrammar.util import serializable

    args = {"name": name, "other": other}
    out = []
    exprs = [(name, lambda d: d[name]), ("%s + 2*%s" % (name, other), lambda d: d[name] + 2 * d[other])]
    recs = [{name: 1.5, other: 4.0}, {name: -0.25, other: 0.5}]
    for text, pyf in exprs:
        f = serializable(text)
        for r in recs:
            want = pyf(r)
            o = Rec(0, 0)
            o.__dict__.clear()
            o.__dict__.update(r)
            arrs = {k: np.array([v, v + 1.0]) for k, v in r.items()}
            for rep, d, exp in (("dict", dict(r), want), ("attr", o, want), ("dict of arrays", arrs, pyf(arrs))):
                try:
                    got = f(d)
                except Exception as e:
                    out.append(core.v_exc(PROP, "field-names", "string expression on a %s record raised" % rep, e,
                                          dict(args, expr=text, rep=rep)))
                    continue
                same = (isinstance(got, np.ndarray) and np.array_equal(got, exp)) if isinstance(exp, np.ndarray) else (
                    not isinstance(got, np.ndarray) and same_num(got, exp))
                if not same:
                    out.append(FW.violation(PROP, "field-names", "string expression on %s record" % rep,
                                            "field-shadowed-by-namespace", dict(args, expr=text, rep=rep),
                                            {"got": repr(got)[:80], "expected": repr(exp)[:80]}))
    return out


def same_num(a, b):
    if isinstance(a, float) and isinstance(b, float) and math.isnan(a) and math.isnan(b):
        return True
    return type(a) is type(b) and a == b


# ------------------------------------------------------------------ (iv) aggregators from strings vs functions
def check_agg(kind, stream):
    import histogrammar as hg

    args = {"agg": kind, "stream": [list(r) for r in stream]}
    try:
        if kind == "Sum":
            hs, hf = hg.Sum("x + y"), hg.Sum(lambda d: d["x"] + d["y"])
        elif kind == "Bin(Average)":
            hs = hg.Bin(2, 0.0, 2.0, "x", hg.Average("y * 2"))
            hf = hg.Bin(2, 0.0, 2.0, lambda d: d["x"], hg.Average(lambda d: d["y"] * 2))
        elif kind == "Select(Categorize)":
            hs = hg.Select("x > 0.5", hg.Categorize("y < 1", hg.Count()))
            hf = hg.Select(lambda d: d["x"] > 0.5, hg.Categorize(lambda d: d["y"] < 1, hg.Count()))
        else:
            hs = hg.SparselyBin(1.0, "x - y", hg.Minimize("x"))
            hf = hg.SparselyBin(1.0, lambda d: d["x"] - d["y"], hg.Minimize(lambda d: d["x"]))
        for x, y, w, rep in stream:
            d = {"x": x, "y": y} if rep == "dict" else Rec(x, y)
            hs.fill(d, w)
            hf.fill({"x": x, "y": y}, w)
        d = C.diff(hs.toJson(), hf.toJson(), tol_keys=(), drop_names=True)
        if d:
            return [core.v_diff(PROP, "agg", "%s built from strings differs from the one built from functions" % kind, d,
                                hs.toJson(), args)]
        # vectorised: record array
        arr = np.array([(x, y) for x, y, _, _ in stream], dtype=[("x", "f8"), ("y", "f8")]).view(np.recarray)
        ws = np.array([w for _, _, w, _ in stream], dtype=float)
        if len(stream):
            hs2 = hs.zero()
            hf2 = hf.zero()
            hs2.fill.numpy(arr, ws)
            hf2.fill.numpy(arr, ws)
            d = C.diff(hs2.toJson(), hf2.toJson(), tol_keys=(), drop_names=True)
            if d:
                return [core.v_diff(PROP, "agg", "%s (numpy) built from strings differs from functions" % kind, d,
                                    hs2.toJson(), args)]
    except Exception as e:
        return [core.v_exc(PROP, "agg", "%s raised" % kind, e, args)]
    return []


# ------------------------------------------------------------------ driver
def _task(task):
    kind = task[0]
    acc = FW.Acc()
    if kind == "words":
        vs, n = check_words(task[1], task[2])
        acc.add(vs)
        acc.n("wrapper_words", n)
        acc.distinct("cases", FW.hkey(("words", task[1])))
    elif kind == "calls":
        wname, first, maxlen = task[1], task[2], task[3]
        m = len(arg_menu())
        for L in range(1, maxlen + 1):
            for rest in itertools.product(range(m), repeat=L - 1):
                seq = (first,) + rest
                acc.add(check_calls(wname, seq))
                acc.n("call_sequences")
                acc.distinct("cases", FW.hkey(("calls", wname, seq)))
    elif kind == "reused":
        for wname in wrappers_for_calls():
            for k in REUSE_KINDS:
                for L in (1, 2, 3):
                    for steps in itertools.product(REUSE_STEPS, repeat=L):
                        acc.add(check_reused(wname, k, steps))
                        acc.n("reused_argument_sequences")
                        acc.distinct("cases", FW.hkey(("reused", wname, k, steps)))
    elif kind == "field-names":
        for name, other in itertools.permutations(FIELD_NAMES, 2):
            acc.add(check_field_name(name, other))
            acc.n("field_name_pairs")
            acc.n("expression_evaluations", 12)
    elif kind == "expr":
        reps = ["dict", "attr", "scalar"]
        for expr in task[1]:
            for order in itertools.permutations(reps):
                acc.add(check_expr(expr, order))
                acc.n("expression_evaluations")
            acc.distinct("cases", FW.hkey(("expr", expr)))
    else:
        agg, n = task[1], task[2]
        recs = [(x, y, w, rep) for (x, y) in [(0.5, 1.0), (1.5, -0.5), (float("nan"), 2.0)] for w in (1.0, 0.5)
                for rep in ("dict", "attr")]
        for L in range(0, n + 1):
            for stream in itertools.product(recs, repeat=L):
                acc.add(check_agg(agg, stream))
                acc.n("aggregator_streams")
                acc.distinct("cases", FW.hkey(("agg", agg, repr(stream))))
    return acc.freeze_sets()


def run(tier, seed):
    # quick: every depth-1 expression plus the depth-2 expressions whose operands are atoms or unary forms;
    # thorough: the complete depth-2 closure of the grammar (~1.6e5 expressions)
    if tier == "quick":
        d1 = expressions(1)
        unary = [e for e in d1 if e.startswith(("-(", "sqrt(", "max(", "min(", "round(", "int("))] + ATOMS
        d2 = []
        for a, b in itertools.product(unary, unary):
            for op in BINOPS:
                d2.append("(%s)%s(%s)" % (a, op, b))
        for e in d1:
            d2.append("-(%s)" % e)
            d2.append("sqrt(abs(%s))" % e)
            d2.append("max(%s, 0)" % e)
            d2.append("min(%s, 0.5)" % e)
        exprs = list(dict.fromkeys(d1 + d2))
    else:
        exprs = expressions(2)
    chunks = [exprs[i::64] for i in range(64)]
    maxlen_calls = 3 if tier == "quick" else 4
    tasks = [("words", b, 4) for b in BASES]
    tasks += [("calls", w, first, maxlen_calls) for w in wrappers_for_calls() for first in range(len(arg_menu()))]
    tasks += [("expr", c) for c in chunks if c] + [("field-names",), ("reused",)]
    tasks += [("agg", a, 2 if tier == "quick" else 3) for a in ("Sum", "Bin(Average)", "Select(Categorize)", "SparselyBin(Minimize)")]
    accs = FW.pmap(_task, tasks, seed)
    acc = FW.Acc()
    for a in accs:
        acc.merge(a)
    ev = sum(acc.c.get(k, 0) for k in ("wrapper_words", "call_sequences", "expression_evaluations", "aggregator_streams"))
    acc.samples = [{"word": ["cached", ["named", "n1"], "serializable"], "base": "lambda"},
                   {"wrapper": "cached(named)", "calls": "every sequence of <=%d calls over 23 argument tuples (two make the function raise, three pass a second positional argument)" % maxlen_calls},
                   {"expr": exprs[len(exprs) // 2], "orders": "all 6 orders of dict / attribute / bare-scalar records"}]
    cov = {
        "evaluations": ev,
        "distinct_nontrivial": len(acc.sets.get("cases", ())),
        "rule": "(i) every word of length <=4 over {serializable, cached, named(n1), named(n2)} applied to a lambda, a def "
                "and a string: class, name, == and hash must depend only on the set of wrappers; a name applied to an "
                "already named function must raise ValueError (def and string carry an implicit name once wrapped); (ii) "
                "every sequence of <=%d calls over 29 argument tuples (two make the function raise, three pass a second positional argument, six are views of one parent buffer); every wrapper x 5 ways of changing an argument object in place x every sequence of <=3 of {change it, pass it again, pass a fresh equal object} (identical / equal-but-distinct / different scalars, "
                "arrays, dicts, keyword arguments) through 6 wrappers vs the bare function; (iii) %d expressions of the "
                "grammar evaluated through the library on dict, attribute and bare-scalar records in all 6 orders vs "
                "Python's eval; every ordered pair of %d field names that collide with names the library injects (math constants and "
                "functions, np, builtins) read through expressions on dict / attribute / dict-of-arrays records; (iv) 4 aggregators built from strings vs functions on every stream of <=%d records (row-wise "
                "and numpy)" % (maxlen_calls, len(exprs), len(FIELD_NAMES), 2 if tier == "quick" else 3),
        "exhaustive": True,
        "bounds": {"expressions": len(exprs), "call_sequence_length": maxlen_calls},
    }
    assumptions = ["naming rule as documented in the code: a def / string expression has an implicit name, so named() must be "
                   "applied to the raw function (not demanded to commute for implicitly named functions)"]
    return acc, cov, assumptions


def replay(driver, args):
    if driver == "words":
        vs, _ = check_words(args["base"], 4)
        return vs
    if driver == "calls":
        return check_calls(args["wrapper"], tuple(args["calls"]))
    if driver == "reused-argument":
        return check_reused(args["wrapper"], args["kind"], tuple(args["steps"]))
    if driver == "field-names":
        return check_field_name(args["name"], args["other"])
    if driver == "expr":
        return check_expr(args["expr"], tuple(args["order"]))
    return check_agg(args["agg"], [tuple(r) for r in args["stream"]])
