"""C13 — derived views (bin edges, centres, entries, grids, projections) agree with fill. DESIGN §3 C13."""
import itertools
import math

import numpy as np

from .. import alphabet as A
from .. import core
from .. import framework as FW

PROP = "C13"
INF = float("inf")

BIN_CFGS = [(2, 0.0, 2.0), (4, -1.0, 1.0), (3, 0.0, 3.0), (1, -1.0, 1.0), (8, -4.0, 4.0),
            (10, 0.0, 1.0), (3, 0.0, 0.3), (2, 1 / 3, 2 / 3), (1, 0.0, 0.1), (5, 5.0, 5.5), (7, -0.7, 0.7), (6, 0.1, 0.7),
            (12, 0.0, 1.2), (40, 1e9, 1e9 + 1), (3, -0.3, 0.6), (7, 0.0, 0.7), (100, 0.0, 1.0), (9, -1e-3, 1e-3),
            (6, -1.0, 0.2), (11, 0.05, 0.6), (2, -1e6, 1e6), (5, 0.0, 1e-7)]
SPARSE_CFGS = [(1.0, 0.0), (0.5, -0.25), (2.0, 1.0), (0.1, 0.0), (1 / 3, 0.05), (0.7, -0.35), (0.3, 0.0), (0.3, 0.1),
               (1e-3, 5.0), (1e6, -0.5), (0.01, 0.0), (3.0, -1.5)]
CENTRAL_CFGS = [[0.0, 1.0, 3.0], [-1.0, 1.0], [-0.1, 0.2, 0.7], [1 / 3, 2 / 3, 1.0, 2.0], [0.0, 0.1, 0.3, 0.6, 1.0],
                [-1e6, 0.0, 1e6], [3.0, 0.0, 1.0], [-3.3, -1.1, 0.3, 0.9, 2.7, 8.1], [0.1, 0.7, 1.9, 2.3]]
IRR_CFGS = [[0.0, 1.0], [-1.0, 0.5, 2.0], [0.1, 0.2, 0.3], [1 / 3, 2 / 3], [0.0], [-0.7, -0.1, 0.1, 0.7, 1e6]]


def is_dyadic(vals):
    for v in vals:
        m, e = math.frexp(v)
        if v != 0 and (m * 2 ** 20) != int(m * 2 ** 20):
            return False
    return True


def ulp_tol(x, k=8):
    return k * max(abs(math.ulp(x)), math.ulp(SCALE[0])) if math.isfinite(x) else 0.0


class Geo:
    """Geometry of one configuration: list of (key, left, right) for the bins the views may report, in order."""

    def __init__(self, kind, cfg, filled_keys=(), span=()):
        self.kind, self.cfg = kind, cfg
        if kind == "Bin":
            n, lo, hi = cfg
            w = (hi - lo) / n
            self.bins = [(i, lo + i * w, lo + (i + 1) * w) for i in range(n)]
            self.bins[-1] = (n - 1, self.bins[-1][1], hi)
            self.dyadic = is_dyadic([lo, hi, w])
            self.clip = (lo, hi)
        elif kind == "SparselyBin":
            bw, o = cfg
            ks = sorted(filled_keys) + [int(math.floor((v - o) / bw)) for v in span if v is not None]
            lo_k, hi_k = (min(ks) - 3, max(ks) + 3) if ks else (0, -1)
            self.domain = (o + min(filled_keys) * bw, o + (max(filled_keys) + 1) * bw) if filled_keys else None
            self.bins = [(i, o + i * bw, o + (i + 1) * bw) for i in range(lo_k, hi_k + 1)]
            self.dyadic = is_dyadic([bw, o])
            self.clip = None
        elif kind == "CentrallyBin":
            c = sorted(cfg)
            m = [(a + b) / 2 for a, b in zip(c[:-1], c[1:])]
            e = [-INF] + m + [INF]
            self.bins = [(i, e[i], e[i + 1]) for i in range(len(c))]
            self.dyadic = is_dyadic(c + m)
            self.clip = None
            # fill compares with (c1 + c2) / 2.0 itself: the boundary is that very float, whatever the centres
            self.exact = True
        else:
            e = [-INF] + list(cfg) + [INF]
            self.bins = [(i, e[i], e[i + 1]) for i in range(len(e) - 1)]
            self.dyadic = is_dyadic(list(cfg))
            self.clip = None
            self.exact = True  # the thresholds are given, not computed

    def finite_edges(self):
        es = []
        for _, a, b in self.bins:
            for v in (a, b):
                if math.isfinite(v) and v not in es:
                    es.append(v)
        return sorted(es)

    def interior(self, key):
        for k, a, b in self.bins:
            if k == key:
                if math.isinf(a):
                    return b - 1.0
                if math.isinf(b):
                    return a + 1.0
                return (a + b) / 2
        raise KeyError(key)


def build(kind, cfg):
    import histogrammar as hg

    q = lambda d: d  # noqa: E731
    if kind == "Bin":
        return hg.Bin(cfg[0], cfg[1], cfg[2], q)
    if kind == "SparselyBin":
        return hg.SparselyBin(cfg[0], q, origin=cfg[1])
    if kind == "CentrallyBin":
        return hg.CentrallyBin(list(cfg), q)
    return hg.IrregularlyBin(list(cfg), q)


def _content_of(kind, h):
    if kind == "Bin":
        return {i: v.entries for i, v in enumerate(h.values) if v.entries}
    if kind == "SparselyBin":
        return {k: v.entries for k, v in h.bins.items() if v.entries}
    return {i: v.entries for i, (_, v) in enumerate(h.bins) if v.entries}


def snap(x, edges):
    """A query bound within numpy.isclose of an edge counts as that edge."""
    for e in edges:
        if x == e or bool(np.isclose(x, e)) and abs(x - e) <= 4 * max(math.ulp(e), math.ulp(x)):
            return e
    return x


def expected_bins(geo, lo, hi):
    """(required, allowed): bins overlapping the query substantially / at all (touching included).
    A bound within numpy.isclose of an edge may be treated as that edge by the library, so bins that overlap the
    query only in such a sliver are allowed but not required. None if nothing is required (degenerate query)."""
    lo2 = -INF if lo is None else lo
    hi2 = INF if hi is None else hi
    if geo.clip:
        lo2, hi2 = max(lo2, geo.clip[0]), min(hi2, geo.clip[1])
    if geo.kind == "SparselyBin":
        if geo.domain is None:
            return None
        if lo is None:
            lo2 = geo.domain[0]
        if hi is None:
            hi2 = geo.domain[1]
        # the statement only covers sub-ranges overlapping the binned domain
        if not (lo2 < geo.domain[1] and hi2 > geo.domain[0]):
            return None
    if not lo2 < hi2:
        return None

    def tol(v):
        return 0.0 if math.isinf(v) else 2 * (1e-8 + 1e-5 * abs(v))

    req = [(k, a, b) for k, a, b in geo.bins if min(b, hi2) - max(a, lo2) > max(tol(a), tol(b), tol(lo2), tol(hi2))]
    allowed = [(k, a, b) for k, a, b in geo.bins if a <= hi2 + tol(hi2) and b >= lo2 - tol(lo2)]
    if not req:
        return None
    return req, allowed


SCALE = [1.0]


def close(a, b, exact):
    """Exact on dyadic configurations; otherwise within 16 ulps of the configuration's scale (largest finite edge):
    the statement is about the partition, not about numpy.linspace rounding."""
    if a == b:
        return True
    if math.isinf(a) or math.isinf(b) or exact:
        return False
    return abs(a - b) <= 16 * max(math.ulp(a), math.ulp(b), math.ulp(SCALE[0]))


def check_1d(kind, cfg, fillset, lo, hi, via="fill"):
    """fillset: list of (bin key, weight). Query (lo, hi) (None = open). Returns violations.
    via == "fill-view-merge": the first datum is filled, every view is asked once (anything remembered by a view
    must not outlive a mutation), the remaining data arrive through an in-place merge (+=) and a fill.numpy."""
    args = {"kind": kind, "cfg": [A.show(float(c)) if isinstance(c, float) else c for c in cfg],
            "fill": [[k, w] for k, w in fillset], "lo": A.show(lo), "hi": A.show(hi), "via": via}
    out = []
    geo = Geo(kind, cfg, [k for k, _ in fillset], (lo, hi))
    SCALE[0] = max([abs(e) for e in geo.finite_edges()] + [1e-300])
    h = build(kind, cfg)
    content = {}
    try:
        if via in ("fill", "histogram"):
            for k, w in fillset:
                x = geo.interior(k)
                h.fill(x, w)
                content[k] = content.get(k, 0.0) + w
            if via == "histogram":
                # the plain-histogram view of the same aggregator: its accessors describe the same partition
                h = h.histogram()
        else:
            for k, w in fillset:
                content[k] = content.get(k, 0.0) + w
            first, rest = fillset[:1], fillset[1:]
            for k, w in first:
                h.fill(geo.interior(k), w)
            for nm in ("num_bins", "bin_edges", "bin_centers", "bin_entries", "bin_width"):
                try:
                    getattr(h, nm)()
                except Exception:
                    pass
            try:
                h.mpv
            except Exception:
                pass
            g = build(kind, cfg)
            for k, w in rest[:1]:
                g.fill(geo.interior(k), w)
            h += g
            for k, w in rest[1:]:
                h.fill.numpy(np.array([geo.interior(k)]), np.array([w]))
    except Exception as e:
        return [core.v_exc(PROP, "views1d", "fill raised", e, args)]
    full = lo is None and hi is None
    if kind == "SparselyBin" and not content:
        ra = ([], [])
    else:
        ra = expected_bins(geo, lo, hi)
    if ra is None:
        return out
    req, allowed = ra
    exp = req
    kw = {} if full else {"low": lo, "high": hi}
    loc = "%s.%%s(%s)" % (kind, "full" if full else ("low,high" if lo is not None and hi is not None else
                                                      ("low" if lo is not None else "high")))
    dy = "dyadic" if geo.dyadic else "non-dyadic"
    try:
        n = h.num_bins(**kw)
        edges = np.asarray(h.bin_edges(**kw), dtype=float)
        centers = np.asarray(h.bin_centers(**kw), dtype=float)
        entries = np.asarray(h.bin_entries(**kw), dtype=float)
    except Exception as e:
        return [core.v_exc(PROP, "views1d", "accessor raised (%s, %s)" % ("full" if full else "sub-range", dy), e, args)]
    if content or True:
        after = {k: v for k, v in _content_of(kind, h).items()}
        if after != {k: v for k, v in content.items()}:
            out.append(FW.violation(PROP, "views1d", kind + " range views", "source-histogram-changed", args,
                                    {"before": content, "after": after}))
            return out
    det = {"num_bins": int(n), "edges": [A.show(float(v)) for v in edges[:12]],
           "centers": [A.show(float(v)) for v in centers[:12]], "entries": [float(v) for v in entries[:12]],
           "expected_bins": [[k, A.show(a), A.show(b)] for k, a, b in exp[:12]]}

    def V(what, kind_):
        return FW.violation(PROP, "views1d", loc % what, kind_ + "@" + dy, args, det)

    if len(edges) != n + 1:
        out.append(V("bin_edges", "len(edges)!=num_bins+1"))
    if len(centers) != n:
        out.append(V("bin_centers", "len(centers)!=num_bins"))
    if len(entries) != n:
        out.append(V("bin_entries", "len(entries)!=num_bins"))
    if out:
        return out
    if any(edges[i] > edges[i + 1] for i in range(n)):
        out.append(V("bin_edges", "edges-not-monotone"))
        return out
    # which run of the partition did the views report?  (identified by the first edge)
    exact = geo.dyadic or getattr(geo, "exact", False)
    start = [j for j, (k, a, b) in enumerate(allowed) if close(float(edges[0]), a, exact)] if n else [0]
    if not start:
        out.append(V("bin_edges", "edges-do-not-match-the-fill-partition"))
        return out
    got = allowed[start[0]: start[0] + n]
    gk = [k for k, _, _ in got]
    if len(got) != n or any(k not in gk for k, _, _ in req):
        out.append(V("num_bins", "wrong-number-of-bins"))
        return out
    exp = got
    for i, (k, a, b) in enumerate(exp):
        if not close(float(edges[i]), a, exact) or not close(float(edges[i + 1]), b, exact):
            out.append(V("bin_edges", "edges-do-not-match-the-fill-partition"))
            return out
        c = float(centers[i])
        if not (edges[i] - ulp_tol(c) <= c <= edges[i + 1] + ulp_tol(c)) or math.isnan(c):
            out.append(V("bin_centers", "centre-outside-its-bin"))
            return out
        if float(entries[i]) != content.get(k, 0.0):
            out.append(V("bin_entries", "entries-do-not-match-the-filled-bins"))
            return out
    if full and kind in ("Bin", "SparselyBin") and n:
        try:
            bw = float(h.bin_width())
            for i in range(n):
                if not close(float(edges[i + 1] - edges[i]), bw, False) and abs((edges[i + 1] - edges[i]) - bw) > 1e-9 * abs(bw):
                    out.append(V("bin_width", "bin_width-differs-from-edge-spacing"))
                    break
        except Exception as e:
            out.append(core.v_exc(PROP, "views1d", "bin_width raised", e, args))
    if full and kind == "IrregularlyBin":
        try:
            bw = np.asarray(h.bin_width(), dtype=float)
            fe = [e for e in cfg]
            if len(bw) != len(fe) - 1 or any(not close(float(bw[i]), fe[i + 1] - fe[i], False) for i in range(len(bw))):
                out.append(V("bin_width", "bin_width-differs-from-edge-spacing"))
        except Exception as e:
            out.append(core.v_exc(PROP, "views1d", "bin_width raised", e, args))
    if full and n:
        try:
            m = float(h.mpv)
            best = max(content.values()) if content else 0.0
            ok = any(a - ulp_tol(m) <= m <= b + ulp_tol(m) and content.get(k, 0.0) == best for k, a, b in exp)
            if not ok:
                out.append(V("mpv", "mpv-not-in-a-maximal-bin"))
        except Exception as e:
            out.append(core.v_exc(PROP, "views1d", "mpv raised", e, args))
    return out


def check_xvalues(kind, cfg, fillset, xs, via="fill"):
    args = {"kind": kind, "cfg": [A.show(float(c)) if isinstance(c, float) else c for c in cfg],
            "fill": [[k, w] for k, w in fillset], "xs": [A.show(x) for x in xs], "via": via}
    geo = Geo(kind, cfg, [k for k, _ in fillset])
    h = build(kind, cfg)
    for k, w in fillset:
        h.fill(geo.interior(k), w)
    if via == "histogram":
        try:
            h = h.histogram()
        except Exception as e:
            return [core.v_exc(PROP, "xvalues", "histogram() raised", e, args)]
    out = []
    # where does fill put x?  -> probe twin
    exp = []
    for x in xs:
        t = build(kind, cfg)
        t.fill(x, 1.0)
        if kind == "Bin":
            idx = [i for i, v in enumerate(t.values) if v.entries]
            exp.append(h.values[idx[0]].entries if idx else 0.0)
        elif kind == "SparselyBin":
            idx = list(t.bins)
            exp.append(h.bins[idx[0]].entries if idx and idx[0] in h.bins else 0.0)
        else:
            idx = [i for i, (_, v) in enumerate(t.bins) if v.entries]
            exp.append(h.bins[idx[0]][1].entries if idx else 0.0)
    try:
        got = [float(v) for v in h.bin_entries(xvalues=list(xs))]
    except Exception as e:
        return [core.v_exc(PROP, "xvalues", "bin_entries(xvalues=...) raised", e, args)]
    if got != exp:
        out.append(FW.violation(PROP, "xvalues", kind + ".bin_entries(xvalues)", "differs-from-where-fill-puts-x", args,
                                {"got": got, "expected": exp}))
    return out


def probe_set(geo):
    es = geo.finite_edges()
    if len(es) > 7:
        es = es[:3] + [es[len(es) // 2]] + es[-3:]
    ps = []
    for e in es:
        ps += [e, math.nextafter(e, -INF), math.nextafter(e, INF)]
    for a, b in zip(es[:-1], es[1:]):
        ps.append((a + b) / 2)
    span = (es[-1] - es[0]) or 1.0
    ps += [es[0] - span / 2, es[-1] + span / 2]
    return sorted(set(ps))


def fill_sets(keys, maxn):
    ws = [0.75, 2.0, 0.25]  # (fractional: a grid of integers would truncate them)
    out = [[]]
    for n in range(1, maxn + 1):
        for combo in itertools.combinations(keys, n):
            out.append([(k, ws[i]) for i, k in enumerate(combo)])
    return out


def config_items():
    items = []
    for c in BIN_CFGS:
        n = c[0]
        keys = list(range(n)) if n <= 5 else [0, 1, n // 2, n - 2, n - 1]
        items.append(("Bin", c, keys))
    for c in SPARSE_CFGS:
        items.append(("SparselyBin", c, [-2, -1, 0, 1, 3]))
    for c in CENTRAL_CFGS:
        items.append(("CentrallyBin", c, list(range(len(c)))))
    for c in IRR_CFGS:
        items.append(("IrregularlyBin", c, list(range(len(c) + 1))))
    return items


def _config(task):
    kind, cfg, keys, tier = task
    acc = FW.Acc()
    acc.n("configurations")
    fsets = fill_sets(keys, 2 if tier == "quick" else 3)
    for fs in fsets:
        geo = Geo(kind, cfg, [k for k, _ in fs] or [0])
        if kind == "SparselyBin" and not fs:
            # unfilled sparse histogram: only structural sanity of the full-range views
            acc.add(check_1d(kind, cfg, fs, None, None))
            continue
        ps = probe_set(geo)
        queries = [(None, None)] + [(p, None) for p in ps] + [(None, p) for p in ps]
        queries += [(a, b) for a, b in itertools.product(ps, ps) if a < b]
        if len(fs) > 1 and tier == "quick":
            queries = queries[: 1 + 2 * len(ps)] + queries[1 + 2 * len(ps):: 3]
        for lo, hi in queries:
            acc.add(check_1d(kind, cfg, fs, lo, hi))
            acc.n("range_queries")
            if len(fs) >= 2 and (lo is None or hi is None):
                acc.add(check_1d(kind, cfg, list(reversed(fs)), lo, hi, via="fill-view-merge"))
                acc.n("range_queries")
                acc.n("queries_after_view_then_merge")
            acc.distinct("cases", FW.hkey((kind, repr(cfg), repr(fs), repr(A.show(lo)), repr(A.show(hi)))))
        xs = ps + [float("inf"), float("-inf")]
        acc.add(check_xvalues(kind, cfg, fs, xs))
        acc.n("xvalue_queries", len(xs))
        if kind != "IrregularlyBin":  # (IrregularlyBin has no histogram())
            for lo, hi in queries[:: max(1, len(queries) // 12)]:
                acc.add(check_1d(kind, cfg, fs, lo, hi, via="histogram"))
                acc.n("range_queries")
                acc.n("queries_on_histogram_view")
            acc.add(check_xvalues(kind, cfg, fs, xs, via="histogram"))
            acc.n("xvalue_queries", len(xs))
    acc.sample({"kind": kind, "cfg": list(cfg), "fill": fsets[-1], "queries": "every (lo<hi) pair over edges, midpoints, "
                "edges +-1 ulp, outside points; full range; one-sided; xvalues"})
    return acc.freeze_sets()


# ------------------------------------------------------------------ 2-D grids and projections, Categorize
def check_2d(kind, cfgx, cfgy, cells):
    """cells: list of ((kx, ky), w) with kx/ky bin keys or 'out' for an out-of-range coordinate."""
    import histogrammar as hg
    from histogrammar.plot.hist_numpy import get_2dgrid

    args = {"kind": kind, "cfgx": list(cfgx), "cfgy": list(cfgy), "cells": [[list(c), w] for c, w in cells]}
    out = []
    gx, gy = Geo(kind, cfgx, [c[0] for c, _ in cells if c[0] != "out"] or [0]), \
        Geo(kind, cfgy, [c[1] for c, _ in cells if c[1] != "out"] or [0])
    qx, qy = (lambda d: d[0]), (lambda d: d[1])

    def mk2():
        if kind == "Bin":
            return hg.Bin(cfgx[0], cfgx[1], cfgx[2], qx, hg.Bin(cfgy[0], cfgy[1], cfgy[2], qy))
        if kind == "SparselyBin":
            return hg.SparselyBin(cfgx[0], qx, hg.SparselyBin(cfgy[0], qy, origin=cfgy[1]), origin=cfgx[1])
        return hg.IrregularlyBin(list(cfgx), qx, hg.IrregularlyBin(list(cfgy), qy))

    def coord(g, k, cfg):
        if k == "out":
            if kind == "Bin":
                return cfg[2] + 1.0
            return float("nan")
        return g.interior(k)

    try:
        h = mk2()
        hx1 = build(kind, cfgx)
        hy1 = build(kind, cfgy)
        inrange = 0.0
        for (kx, ky), w in cells:
            x, y = coord(gx, kx, cfgx), coord(gy, ky, cfgy)
            h.fill((x, y), w)
            hx1.fill(x, w) if ky != "out" else None
            hy1.fill(y, w) if kx != "out" else None
            if kx != "out" and ky != "out":
                inrange += w
        if kind == "SparselyBin" and not h.bins:
            return out
        src0 = h.toJson()
        xr, yr, grid = h.xy_ranges_grid()
        grid = np.asarray(grid, dtype=float)
        if kind == "IrregularlyBin":
            # the library's grid covers only the finite-edged bins
            fin = sum(w for (kx, ky), w in cells if kx not in ("out", 0, len(cfgx)) and ky not in ("out", 0, len(cfgy)))
            if float(grid.sum()) != fin:
                out.append(FW.violation(PROP, "views2d", kind + ".xy_ranges_grid", "grid-sum-differs-from-finite-bin-weight",
                                        args, {"sum": float(grid.sum()), "expected": fin}))
        else:
            if float(grid.sum()) != inrange:
                out.append(FW.violation(PROP, "views2d", kind + ".xy_ranges_grid", "grid-sum-differs-from-in-range-weight",
                                        args, {"sum": float(grid.sum()), "expected": inrange}))
            if grid.shape != (len(yr) - 1, len(xr) - 1):
                out.append(FW.violation(PROP, "views2d", kind + ".xy_ranges_grid", "grid-shape-vs-ranges", args,
                                        {"shape": list(grid.shape), "nx": len(xr), "ny": len(yr)}))
            # every filled cell must sit where its coordinates are
            for (kx, ky), w in cells:
                if kx == "out" or ky == "out":
                    continue
                x, y = coord(gx, kx, cfgx), coord(gy, ky, cfgy)
                i = int(np.searchsorted(np.asarray(xr, dtype=float), x, side="right")) - 1
                j = int(np.searchsorted(np.asarray(yr, dtype=float), y, side="right")) - 1
                tot = sum(w2 for (a, b), w2 in cells if (a, b) == (kx, ky))
                if not (0 <= i < grid.shape[1] and 0 <= j < grid.shape[0]) or float(grid[j, i]) != tot:
                    out.append(FW.violation(PROP, "views2d", kind + ".xy_ranges_grid", "cell-not-at-its-coordinates", args,
                                            {"x": x, "y": y, "i": i, "j": j}))
                    break
        _, _, g2 = get_2dgrid(h)
        g2 = np.asarray(g2, dtype=float)
        tot2 = sum(w for (kx, ky), w in cells if kx != "out" and ky != "out") if kind != "IrregularlyBin" else \
            sum(w for (kx, ky), w in cells if kx != "out" and ky != "out")
        if float(g2.sum()) != tot2:
            out.append(FW.violation(PROP, "views2d", kind + ".get_2dgrid", "grid-sum-differs-from-in-range-weight", args,
                                    {"sum": float(g2.sum()), "expected": tot2}))
        px, py = h.project_on_x(), h.project_on_y()
        for nm, p, ref in (("project_on_x", px, hx1), ("project_on_y", py, hy1)):
            got = [float(v) for v in np.asarray(p.bin_entries(), dtype=float)]
            want = [float(v) for v in np.asarray(ref.bin_entries(), dtype=float)]
            if kind == "SparselyBin":
                got = sorted((k, v.entries) for k, v in p.bins.items() if v.entries)
                want = sorted((k, v.entries) for k, v in ref.bins.items() if v.entries)
            if got != want:
                out.append(FW.violation(PROP, "views2d", "%s.%s" % (kind, nm), "differs-from-1d-histogram-of-same-data",
                                        args, {"got": got, "expected": want}))
        # the views are read-only: the source is what it was, and asking again gives the same answer
        from ..canon import diff as _diff

        d = _diff(h.toJson(), src0, tol_keys=())
        if d:
            out.append(FW.violation(PROP, "views2d", kind + " grid/projection views", "source-histogram-changed", args,
                                    {"path": d[0], "now": d[2], "before": d[3]}))
        else:
            for nm, first in (("project_on_x", px), ("project_on_y", py)):
                again = getattr(h, nm)()
                if _diff(again.toJson(), first.toJson(), tol_keys=()):
                    out.append(FW.violation(PROP, "views2d", "%s.%s" % (kind, nm), "second-call-differs", args, {}))
            d = _diff(h.toJson(), src0, tol_keys=())
            if d:
                out.append(FW.violation(PROP, "views2d", kind + " grid/projection views", "source-histogram-changed", args,
                                        {"path": d[0], "now": d[2], "before": d[3]}))
    except Exception as e:
        out.append(core.v_exc(PROP, "views2d", "2-D view raised", e, args))
    return out


def check_categorize(labels):
    """labels: list of (label, weight) fills."""
    import histogrammar as hg

    args = {"labels": [[A.show(l), w] for l, w in labels]}
    out = []
    try:
        h = hg.Categorize(lambda d: d)
        content = {}
        def key(l):
            return "NaN" if l is None else str(l)

        for l, w in labels:
            h.fill(l, w)
            content[key(l)] = content.get(key(l), 0.0) + w
        labs = [str(x) for x in h.bin_labels()]
        ents = [float(x) for x in h.bin_entries()]
        if len(labs) != len(ents) or dict(zip(labs, ents)) != content or h.n_bins != len(content) or h.size != len(content):
            out.append(FW.violation(PROP, "categorize", "Categorize.bin_labels/bin_entries", "differ-from-bins", args,
                                    {"labels": labs, "entries": ents}))
        ask = list(content) + ["zzz"]
        asked = [("NaN" if l is None else l) for l, _ in labels]
        got = [float(x) for x in h.bin_entries(labels=asked + ["zzz"])]
        want = [content[key(l)] for l, _ in labels] + [0.0]
        if got != want:
            out.append(FW.violation(PROP, "categorize", "Categorize.bin_entries(labels)", "differ-from-bins", args,
                                    {"got": got, "expected": want, "ask": ask}))
        # every way of asking for labels: each exactly once in every order, subsets, repeats, unknown ones
        real = [k for k in h.bins]
        queries = [list(p_) for p_ in itertools.permutations(real)] if len(real) <= 4 else [list(reversed(real)), sorted(real, key=str)]
        queries += [real[:1], real[-1:] * 2, real + ["zzz"], ["zzz"] + real[::-1]]
        for q in queries:
            got = [float(x) for x in h.bin_entries(labels=q)]
            want = [content.get(key(l), 0.0) if l in h.bins else 0.0 for l in q]
            if got != want:
                out.append(FW.violation(PROP, "categorize", "Categorize.bin_entries(labels)", "entry-i-is-not-the-content-of-label-i",
                                        args, {"got": got, "expected": want, "ask": [str(l) for l in q]}))
                break
        if content:
            m = str(h.mpv)
            if content.get(m) != max(content.values()):
                out.append(FW.violation(PROP, "categorize", "Categorize.mpv", "mpv-not-a-maximal-label", args, {"mpv": m}))
    except Exception as e:
        out.append(core.v_exc(PROP, "categorize", "Categorize view raised", e, args))
    return out


def _twod(task):
    kind, cfgx, cfgy, tier = task
    acc = FW.Acc()
    kx = {"Bin": lambda c: list(range(c[0]))[:3] + ["out"], "SparselyBin": lambda c: [-1, 0, 2],
          "IrregularlyBin": lambda c: list(range(len(c) + 1))}[kind]
    cells = list(itertools.product(kx(cfgx), kx(cfgy)))
    ws = [0.75, 2.0, 0.25]  # (fractional: a grid of integers would truncate them)
    maxn = 2 if (tier == "quick" and kind != "SparselyBin") else 3  # (a sparse grid grows with every new slice: three cells)
    for n in range(0, maxn + 1):
        for combo in itertools.combinations(cells, n):
            cs = [(c, ws[i]) for i, c in enumerate(combo)]
            acc.add(check_2d(kind, cfgx, cfgy, cs))
            acc.n("grid_cases")
            acc.distinct("cases", FW.hkey((kind, repr(cfgx), repr(cfgy), repr(cs))))
    acc.sample({"kind": kind + "x" + kind, "cfgx": list(cfgx), "cfgy": list(cfgy), "cells": [list(c) for c in cells[:3]]})
    return acc.freeze_sets()


def _cat(task):
    acc = FW.Acc()
    menu = ["a", "b", "", True, None, "NaN"]
    ws = [0.75, 2.0, 0.25]  # (fractional: a grid of integers would truncate them)
    for n in range(0, 4):
        for combo in itertools.product(menu, repeat=n):
            acc.add(check_categorize([(l, ws[i]) for i, l in enumerate(combo)]))
            acc.n("categorize_cases")
            acc.distinct("cases", FW.hkey(("cat", repr(combo))))
    return acc.freeze_sets()


def _dispatch(task):
    if task[0] == "1d":
        return _config(task[1])
    if task[0] == "2d":
        return _twod(task[1])
    return _cat(task[1])


def run(tier, seed):
    tasks = [("1d", (k, c, keys, tier)) for k, c, keys in config_items()]
    twod = [("Bin", (2, 0.0, 2.0), (3, 0.0, 3.0)), ("Bin", (4, -1.0, 1.0), (2, 0.0, 2.0)), ("Bin", (3, 0.0, 0.3), (2, 1 / 3, 2 / 3)),
            ("SparselyBin", (1.0, 0.0), (0.5, -0.25)), ("SparselyBin", (0.1, 0.0), (1 / 3, 0.05)),
            ("IrregularlyBin", [0.0, 1.0], [-1.0, 0.5, 2.0]), ("IrregularlyBin", [0.1, 0.2, 0.3], [0.0, 1.0])]
    tasks += [("2d", (k, cx, cy, tier)) for k, cx, cy in twod]
    tasks.append(("cat", None))
    accs = FW.pmap(_dispatch, tasks, seed)
    acc = FW.Acc()
    for a in accs:
        acc.merge(a)
    ev = acc.c.get("range_queries", 0) + acc.c.get("xvalue_queries", 0) + acc.c.get("grid_cases", 0) + acc.c.get(
        "categorize_cases", 0)
    cov = {
        "evaluations": ev,
        "distinct_nontrivial": len(acc.sets.get("cases", ())),
        "rule": "1-D: every configuration in the menus (dyadic and non-dyadic Bin/SparselyBin/CentrallyBin/IrregularlyBin) "
                "x every fill set of <=%d bins with distinct power-of-two weights x {full range, every one-sided range, "
                "every ordered pair lo<hi} over the probe set {edges, bin midpoints, edges +-1 ulp, one point beyond each "
                "end} + xvalues over the probes and +-inf; expected partition = bins overlapping the query (bounds within "
                "numpy.isclose of an edge count as that edge); 2-D: Bin x Bin, SparselyBin x SparselyBin, IrregularlyBin x "
                "IrregularlyBin over every set of <=%d cells incl. out-of-range data; Categorize: every label sequence of "
                "length <=3; distinct = (configuration, fill set, query)" % ((2, 2) if tier == "quick" else (3, 3)),
        "exhaustive": True,
        "bounds": {"configurations_1d": len(config_items()), "configurations_2d": len(twod)},
    }
    assumptions = ["edge values compared exactly on dyadic configurations and within 16 ulps on non-dyadic ones",
                   "degenerate queries that only touch an end of the binned domain are not asserted"]
    return acc, cov, assumptions


def replay(driver, args):
    def un(v):
        return A.unshow(v)

    if driver == "views1d":
        cfg = [un(c) for c in args["cfg"]]
        return check_1d(args["kind"], cfg, [tuple(f) for f in args["fill"]], un(args["lo"]), un(args["hi"]),
                        args.get("via", "fill"))
    if driver == "xvalues":
        cfg = [un(c) for c in args["cfg"]]
        return check_xvalues(args["kind"], cfg, [tuple(f) for f in args["fill"]], [un(x) for x in args["xs"]],
                             args.get("via", "fill"))
    if driver == "views2d":
        cells = [((c[0][0], c[0][1]), c[1]) for c in args["cells"]]
        return check_2d(args["kind"], args["cfgx"], args["cfgy"], cells)
    return check_categorize([(un(l), w) for l, w in args["labels"]])
