"""C02 — fill computes the specified function of the weighted multiset. DESIGN §3 C02."""
import itertools
import math

from .. import alphabet as A
from .. import canon as C
from .. import core
from .. import framework as FW
from .. import refmodel as R
from .. import spec as S

PROP = "C02"


def inexact_nodes(spec, rec):
    """True if for some Bin/SparselyBin node the float index arithmetic rounds for this record."""
    for _, _, n in S.node_ids(spec):
        if n["t"] == "Bin":
            x = float(rec[n["q"]])
            num, low, high = n["p"]
            if not math.isnan(x) and low <= x < high:
                if not A.exact_bin_index(num, low, high, x)[1]:
                    return True
        elif n["t"] == "SparselyBin":
            x = float(rec[n["q"]])
            if math.isfinite(x) and abs(x) < 1e20:
                if not A.exact_sparse_index(n["p"][0], n["p"][1], x)[1]:
                    return True
    return False


def check_seq(spec, evs, upto=None):
    """Fill evs one by one into a fresh tree; compare with the reference after each step >= upto.
    Returns (violations, final_obs_or_None)."""
    args = {"spec": spec, "evs": core.show_evs(evs)}
    out = []
    h = S.build(spec)
    start = 0 if upto is None else upto
    weak = False
    for i, (r, w) in enumerate(evs):
        weak = weak or (w > 0 and inexact_nodes(spec, r))
        before = h.toJson() if not (w > 0) else None
        try:
            h.fill(A.fresh(r), w)
        except Exception as e:
            out.append(core.v_exc(PROP, "fill-seq", "fill raised on a valid datum", e, args, {"step": i}))
            return out, None
        if i + 1 < start:
            continue
        doc = h.toJson()
        if before is not None:
            d = C.diff(doc, before, tol_keys=())
            if d:
                out.append(core.v_diff(PROP, "fill-seq", "fill with weight<=0/NaN changed the state", d, doc, args,
                                       {"step": i}))
                return out, None
        if weak:
            exp = R.ref_doc(spec, evs[: i + 1])
            if C._num(doc["data"]["entries"] if isinstance(doc["data"], dict) else doc["data"]) != C._num(
                    exp["data"]["entries"] if isinstance(exp["data"], dict) else exp["data"]):
                out.append(FW.violation(PROP, "fill-seq", "root entries (inexact-index datum)", "entries", args,
                                        {"step": i}))
                return out, None
            continue
        d = C.diff(doc, R.ref_doc(spec, evs[: i + 1]))
        if d:
            out.append(core.v_diff(PROP, "fill-seq", "state differs from reference", d, doc, args, {"step": i}))
            return out, None
    return out, (None if weak else C.norm(h.toJson()))


# ------------------------------------------------------------------ convenience constructors and input types
def convenience_cases():
    """(name, thunk building the aggregator through histogrammar.convenience / .ing(), equivalent spec)."""
    import histogrammar as hg
    import histogrammar.convenience as CV

    qx, qy, qs = (lambda: eval('lambda d: d["x"]')), (lambda: eval('lambda d: d["y"]')), (lambda: eval('lambda d: d["s"]'))
    qc = lambda: eval('lambda d: d["c"]')  # noqa: E731
    cnt = {"t": "Count"}
    B = lambda v, q="x", p=(2, 0.0, 2.0): {"t": "Bin", "p": list(p), "q": q, "v": v}  # noqa: E731
    SB = lambda v, q="x", p=(1.0, 0.0): {"t": "SparselyBin", "p": list(p), "q": q, "v": v}  # noqa: E731
    return [
        ("Histogram", lambda: CV.Histogram(2, 0.0, 2.0, qx()), B(cnt)),
        ("HistogramCut", lambda: CV.HistogramCut(2, 0.0, 2.0, qx(), qs()), {"t": "Select", "q": "s", "v": B(cnt)}),
        ("SparselyHistogram", lambda: CV.SparselyHistogram(0.5, qx(), -0.25), SB(cnt, p=(0.5, -0.25))),
        ("CategorizeHistogram", lambda: CV.CategorizeHistogram(qc()), {"t": "Categorize", "q": "c", "v": cnt}),
        ("Profile", lambda: CV.Profile(2, 0.0, 2.0, qx(), qy()), B({"t": "Average", "q": "y"})),
        ("SparselyProfile", lambda: CV.SparselyProfile(1.0, qx(), qy()), SB({"t": "Average", "q": "y"})),
        ("ProfileErr", lambda: CV.ProfileErr(2, 0.0, 2.0, qx(), qy()), B({"t": "Deviate", "q": "y"})),
        ("SparselyProfileErr", lambda: CV.SparselyProfileErr(1.0, qx(), qy(), 0.0), SB({"t": "Deviate", "q": "y"})),
        ("TwoDimensionallyHistogram", lambda: CV.TwoDimensionallyHistogram(2, 0.0, 2.0, qx(), 2, 0.0, 2.0, qy()),
         B(B(cnt, "y"))),
        ("TwoDimensionallySparselyHistogram", lambda: CV.TwoDimensionallySparselyHistogram(1.0, qx(), 1.0, qy()),
         SB(SB(cnt, "y"))),
        ("Bin.ing", lambda: hg.Bin.ing(2, 0.0, 2.0, qx(), hg.Sum.ing(qy())), B({"t": "Sum", "q": "y"})),
        ("SparselyBin.ing", lambda: hg.SparselyBin.ing(1.0, qx(), hg.Minimize.ing(qy())), SB({"t": "Minimize", "q": "y"})),
        ("CentrallyBin.ing", lambda: hg.CentrallyBin.ing([0.0, 1.0, 3.0], qx(), hg.Maximize.ing(qy())),
         {"t": "CentrallyBin", "p": [0.0, 1.0, 3.0], "q": "x", "v": {"t": "Maximize", "q": "y"}}),
        ("IrregularlyBin.ing", lambda: hg.IrregularlyBin.ing([0.0, 1.0], qx(), hg.Count.ing()),
         {"t": "IrregularlyBin", "p": [0.0, 1.0], "q": "x", "v": cnt}),
        ("Stack.ing", lambda: hg.Stack.ing([0.0, 1.0], qx(), hg.Deviate.ing(qy())),
         {"t": "Stack", "p": [0.0, 1.0], "q": "x", "v": {"t": "Deviate", "q": "y"}}),
        ("Categorize.ing", lambda: hg.Categorize.ing(qc(), hg.Bag.ing(qy())), None),
        ("Fraction.ing", lambda: hg.Fraction.ing(qs(), hg.Average.ing(qy())), {"t": "Fraction", "q": "s", "v": {"t": "Average", "q": "y"}}),
        ("Select.ing", lambda: hg.Select.ing(qs(), hg.Sum.ing(qx())), {"t": "Select", "q": "s", "v": {"t": "Sum", "q": "x"}}),
        ("Label.ing", lambda: hg.Label.ing(a=hg.Sum.ing(qx()), b=hg.Sum.ing(qy())),
         {"t": "Label", "ch": {"a": {"t": "Sum", "q": "x"}, "b": {"t": "Sum", "q": "y"}}}),
        ("Branch.ing", lambda: hg.Branch.ing(hg.Count.ing(), hg.Average.ing(qx())),
         {"t": "Branch", "ch": [cnt, {"t": "Average", "q": "x"}]}),
        # string quantities over records whose fields are called like names the evaluation namespace also holds: the
        # field's value is the quantity (records get the extra fields e = x, pi = y, gamma = s, exp = c)
        ("Bin('e', Sum('pi'))", lambda: hg.Bin(2, 0.0, 2.0, "e", hg.Sum("pi")), B({"t": "Sum", "q": "y"})),
        ("Select('gamma', Average('e'))", lambda: hg.Select("gamma", hg.Average("e")),
         {"t": "Select", "q": "s", "v": {"t": "Average", "q": "x"}}),
        ("Categorize('exp', Minimize('pi'))", lambda: hg.Categorize("exp", hg.Minimize("pi")),
         {"t": "Categorize", "q": "c", "v": {"t": "Minimize", "q": "y"}}),
        ("SparselyBin('pi', Deviate('e'))", lambda: hg.SparselyBin(1.0, "pi", hg.Deviate("e")),
         SB({"t": "Deviate", "q": "x"}, "y")),
    ]


def check_convenience(name, evs):
    """An aggregator built through a convenience function / .ing() synonym must be filled like the explicit tree."""
    case = [c for c in convenience_cases() if c[0] == name][0]
    _, thunk, spec = case
    args = {"convenience": name, "evs": core.show_evs(evs)}
    if spec is None:
        return []
    try:
        h = thunk()
        for r, w in evs:
            r2 = A.fresh(r)
            r2.update(e=r2["x"], pi=r2["y"], gamma=r2["s"], exp=r2["c"])
            h.fill(r2, w)
        d = C.diff(h.toJson(), R.ref_doc(spec, evs), drop_names="'" in name)
    except Exception as e:
        return [core.v_exc(PROP, "convenience", "%s raised" % name, e, args)]
    if d:
        return [core.v_diff(PROP, "convenience", "%s differs from the reference of the equivalent tree" % name, d,
                            h.toJson(), args)]
    return []


def typed(rec, variant):
    """The same record with numeric values as other numeric types (int where integral, numpy scalars, bool for 0/1)."""
    import numpy as np

    out = dict(rec)
    for k in ("x", "y", "s"):
        v = rec.get(k)
        if isinstance(v, bool) or not isinstance(v, float) or v != v or v in (float("inf"), float("-inf")):
            if variant == "numpy" and isinstance(v, float):
                out[k] = np.float64(v)
            continue
        if variant == "int" and v == int(v):
            out[k] = int(v)
        elif variant == "numpy":
            out[k] = np.float64(v) if v != int(v) else np.int64(int(v))
        elif variant == "numpy32" and float(np.float32(v)) == v:
            out[k] = np.float32(v)
    return out


def check_typed(spec, evs, variant):
    """Filling ints / numpy scalars must give exactly what the equal floats give (the reference is value-based)."""
    args = {"spec": spec, "evs": core.show_evs(evs), "variant": variant}
    try:
        h = S.build(spec)
        for r, w in evs:
            if inexact_nodes(spec, r):
                return []
            h.fill(typed(A.fresh(r), variant), w if variant != "numpy" else __import__("numpy").float64(w))
        d = C.diff(h.toJson(), R.ref_doc(spec, evs))
    except Exception as e:
        return [core.v_exc(PROP, "typed-input", "fill of %s values raised" % variant, e, args)]
    if d:
        what = "filling %s values differs from filling equal floats" % variant
        if variant == "numpy32" and f32_collision(spec):
            # NumPy compares a float32 scalar with a Python float at single precision, so edges that differ by less
            # than float32 resolution are one edge to such a datum (listed finding; every other tree keeps `what`)
            what = "numpy32 datum compared at single precision with edges that float32 cannot tell apart"
        return [core.v_diff(PROP, "typed-input", what, d, h.toJson(), args)]
    return []


def f32_collision(spec):
    """Does some binning node have two different boundaries with the same float32 rounding?"""
    import numpy as np

    for _, _, n in S.node_ids(spec):
        if n["t"] in S.BINNING:
            e = sorted(set(A._edges(n)))
            if any(a != b and np.float32(a) == np.float32(b) for a, b in zip(e[:-1], e[1:])):
                return True
    return False


def plans(spec, tier):
    d = S.depth(spec)
    if d == 1:
        return [("full", None, [1.0, 0.5, 2.0], 3 if tier == "quick" else 4)]
    if d == 2:
        if tier == "quick":
            return [("full", None, [1.0, 0.5, 2.0], 1), ("mid", 24, [1.0, 0.5], 2)]
        return [("full", None, [1.0, 0.5, 2.0], 2), ("core", 12, [1.0, 0.5], 3)]
    if tier == "quick":
        return [("mid", 40, [1.0, 0.5], 1), ("core", 12, [1.0], 2)]
    return [("full", 200, [1.0, 0.5], 1), ("mid", 30, [1.0, 0.5], 2)]


def _tree(task):
    spec, tier = task
    acc = FW.Acc()
    acc.n("trees")
    for level, cap, ws, n in plans(spec, tier):
        evs = A.events(spec, level, cap=cap, weights=ws)
        acc.n("alphabet_events", len(evs))
        for seq in itertools.product(range(len(evs)), repeat=n):
            # prefixes are checked the first time they appear (all later indexes 0)
            first = n
            for j in range(n - 1, 0, -1):
                if seq[j] == 0:
                    first = j
                else:
                    break
            hist = [evs[i] for i in seq]
            vs, ob = check_seq(spec, hist, upto=first)
            acc.n("sequences")
            acc.n("transitions", n)
            acc.add(vs)
            if ob is None and not vs:
                acc.n("sequences_with_inexact_index_datum")
            if ob is not None:
                acc.distinct("states", FW.hkey((S.key(spec), ob)))
                for cl in core.root_classes(hist, spec):
                    acc.n("root_route_" + str(cl))
            if any(not (w > 0) for _, w in hist):
                acc.n("sequences_with_noop_weight")
    # the same data as ints / numpy scalars (every single event of the mid alphabet, and pairs of the core one)
    mid = A.events(spec, "mid", cap=40, weights=[1.0, 0.5], noop=False)
    corev = A.events(spec, "core", cap=6, weights=[1.0], noop=False)
    for variant in ("int", "numpy", "numpy32"):
        for e in mid:
            acc.add(check_typed(spec, [e], variant))
            acc.n("typed_input_sequences")
        for e1, e2 in itertools.product(corev, corev):
            acc.add(check_typed(spec, [e1, e2], variant))
            acc.n("typed_input_sequences")
    if not acc.samples:
        evs = A.events(spec, "core", cap=8)
        acc.sample(core.sample_hist(spec, evs[:2]))
    return acc.freeze_sets()


def _conv(task):
    name, tier = task
    acc = FW.Acc()
    spec = [c for c in convenience_cases() if c[0] == name][0][2]
    if spec is None:
        return acc
    evs = A.events(spec, "mid", cap=30, weights=[1.0, 0.5])
    n = 2
    for seq in itertools.product(range(len(evs)), repeat=n):
        acc.add(check_convenience(name, [evs[i] for i in seq]))
        acc.n("convenience_sequences")
        acc.n("sequences")
        acc.n("transitions", n)
    acc.distinct("states", FW.hkey(("conv", name)))
    return acc.freeze_sets()


def _dispatch(task):
    return _tree(task[1]) if task[0] == "tree" else _conv(task[1])


def trees(tier):
    t = S.D1() + S.D2()
    t += S.D3_quick() + S.D3flow()
    if tier != "quick":
        t += S.D3()
    t += S.DX()
    seen, out = set(), []
    for s in t:
        k = S.key(s)
        if k not in seen:
            seen.add(k)
            out.append(s)
    return out


def run(tier, seed):
    ts = trees(tier)
    tasks = [("tree", (t, tier)) for t in ts] + [("conv", (c[0], tier)) for c in convenience_cases()]
    accs = FW.pmap(_dispatch, tasks, seed)
    acc = FW.Acc()
    for a in accs:
        acc.merge(a)
    cov = {
        "states": len(acc.sets.get("states", ())),
        "transitions": acc.c.get("transitions", 0),
        "traces_validated_against_impl": acc.c.get("sequences", 0),
        "evaluations": acc.c.get("sequences", 0),
        "distinct_nontrivial": len(acc.sets.get("states", ())),
        "rule": "per tree, every sequence of exactly n (record, weight) events over the tree's alphabet (all shorter "
                "sequences are its prefixes and are compared when first reached); distinct = distinct (tree, observable "
                "state) reached; plans per depth: " + repr({d: plans({"t": "Count"} if d == 1 else
                                                               (S.D2()[0] if d == 2 else S.D3_quick()[0]), tier)
                                                            for d in (1, 2, 3)}),
        "exhaustive": True,
        "bounds": {"trees": len(ts)},
    }
    assumptions = [
        "reference = exact-rational evaluation of the multiset routed to each node (hgmc/refmodel.py)",
        "bin membership asserted exactly only for (configuration, x) pairs whose float index arithmetic is proved exact "
        "with fractions.Fraction; other pairs only assert conservation of root entries",
        "mean/variance compared with rel/abs 1e-9; everything else bit-exact",
    ]
    return acc, cov, assumptions


def replay(driver, args):
    if driver == "convenience":
        return check_convenience(args["convenience"], core.unshow_evs(args["evs"]))
    if driver == "typed-input":
        return check_typed(args["spec"], core.unshow_evs(args["evs"]), args["variant"])
    vs, _ = check_seq(args["spec"], core.unshow_evs(args["evs"]))
    return vs
