"""C02 — fill computes the specified function of the weighted multiset. DESIGN §3 C02."""
import itertools
import math

from .. import alphabet as A
from .. import canon as C
from .. import core
from .. import framework as FW
from .. import refmodel as R
from .. import spec as S

PROP = "C02"


def inexact_nodes(spec, rec):
    """True if for some Bin/SparselyBin node the float index arithmetic rounds for this record."""
    for _, _, n in S.node_ids(spec):
        if n["t"] == "Bin":
            x = float(rec[n["q"]])
            num, low, high = n["p"]
            if not math.isnan(x) and low <= x < high:
                if not A.exact_bin_index(num, low, high, x)[1]:
                    return True
        elif n["t"] == "SparselyBin":
            x = float(rec[n["q"]])
            if math.isfinite(x) and abs(x) < 1e20:
                if not A.exact_sparse_index(n["p"][0], n["p"][1], x)[1]:
                    return True
    return False


def check_seq(spec, evs, upto=None):
    """Fill evs one by one into a fresh tree; compare with the reference after each step >= upto.
    Returns (violations, final_obs_or_None)."""
    args = {"spec": spec, "evs": core.show_evs(evs)}
    out = []
    h = S.build(spec)
    start = 0 if upto is None else upto
    weak = False
    for i, (r, w) in enumerate(evs):
        weak = weak or (w > 0 and inexact_nodes(spec, r))
        before = h.toJson() if not (w > 0) else None
        try:
            h.fill(A.fresh(r), w)
        except Exception as e:
            out.append(core.v_exc(PROP, "fill-seq", "fill raised on a valid datum", e, args, {"step": i}))
            return out, None
        if i + 1 < start:
            continue
        doc = h.toJson()
        if before is not None:
            d = C.diff(doc, before, tol_keys=())
            if d:
                out.append(core.v_diff(PROP, "fill-seq", "fill with weight<=0/NaN changed the state", d, doc, args,
                                       {"step": i}))
                return out, None
        if weak:
            exp = R.ref_doc(spec, evs[: i + 1])
            if C._num(doc["data"]["entries"] if isinstance(doc["data"], dict) else doc["data"]) != C._num(
                    exp["data"]["entries"] if isinstance(exp["data"], dict) else exp["data"]):
                out.append(FW.violation(PROP, "fill-seq", "root entries (inexact-index datum)", "entries", args,
                                        {"step": i}))
                return out, None
            continue
        d = C.diff(doc, R.ref_doc(spec, evs[: i + 1]))
        if d:
            out.append(core.v_diff(PROP, "fill-seq", "state differs from reference", d, doc, args, {"step": i}))
            return out, None
    return out, (None if weak else C.norm(h.toJson()))


def plans(spec, tier):
    d = S.depth(spec)
    if d == 1:
        return [("full", None, [1.0, 0.5, 2.0], 3 if tier == "quick" else 4)]
    if d == 2:
        if tier == "quick":
            return [("full", None, [1.0, 0.5, 2.0], 1), ("mid", 24, [1.0, 0.5], 2)]
        return [("full", None, [1.0, 0.5, 2.0], 2), ("core", 12, [1.0, 0.5], 3)]
    if tier == "quick":
        return [("mid", 40, [1.0, 0.5], 1), ("core", 12, [1.0], 2)]
    return [("full", 200, [1.0, 0.5], 1), ("mid", 30, [1.0, 0.5], 2)]


def _tree(task):
    spec, tier = task
    acc = FW.Acc()
    acc.n("trees")
    for level, cap, ws, n in plans(spec, tier):
        evs = A.events(spec, level, cap=cap, weights=ws)
        acc.n("alphabet_events", len(evs))
        for seq in itertools.product(range(len(evs)), repeat=n):
            # prefixes are checked the first time they appear (all later indexes 0)
            first = n
            for j in range(n - 1, 0, -1):
                if seq[j] == 0:
                    first = j
                else:
                    break
            hist = [evs[i] for i in seq]
            vs, ob = check_seq(spec, hist, upto=first)
            acc.n("sequences")
            acc.n("transitions", n)
            acc.add(vs)
            if ob is None and not vs:
                acc.n("sequences_with_inexact_index_datum")
            if ob is not None:
                acc.distinct("states", FW.hkey((S.key(spec), ob)))
                for cl in core.root_classes(hist, spec):
                    acc.n("root_route_" + str(cl))
            if any(not (w > 0) for _, w in hist):
                acc.n("sequences_with_noop_weight")
    if not acc.samples:
        evs = A.events(spec, "core", cap=8)
        acc.sample(core.sample_hist(spec, evs[:2]))
    return acc.freeze_sets()


def trees(tier):
    t = S.D1() + S.D2()
    t += S.D3_quick() + S.D3flow()
    if tier != "quick":
        t += S.D3()
    t += S.DX()
    seen, out = set(), []
    for s in t:
        k = S.key(s)
        if k not in seen:
            seen.add(k)
            out.append(s)
    return out


def run(tier, seed):
    ts = trees(tier)
    accs = FW.pmap(_tree, [(t, tier) for t in ts], seed)
    acc = FW.Acc()
    for a in accs:
        acc.merge(a)
    cov = {
        "states": len(acc.sets.get("states", ())),
        "transitions": acc.c.get("transitions", 0),
        "traces_validated_against_impl": acc.c.get("sequences", 0),
        "evaluations": acc.c.get("sequences", 0),
        "distinct_nontrivial": len(acc.sets.get("states", ())),
        "rule": "per tree, every sequence of exactly n (record, weight) events over the tree's alphabet (all shorter "
                "sequences are its prefixes and are compared when first reached); distinct = distinct (tree, observable "
                "state) reached; plans per depth: " + repr({d: plans({"t": "Count"} if d == 1 else
                                                               (S.D2()[0] if d == 2 else S.D3_quick()[0]), tier)
                                                            for d in (1, 2, 3)}),
        "exhaustive": True,
        "bounds": {"trees": len(ts)},
    }
    assumptions = [
        "reference = exact-rational evaluation of the multiset routed to each node (hgmc/refmodel.py)",
        "bin membership asserted exactly only for (configuration, x) pairs whose float index arithmetic is proved exact "
        "with fractions.Fraction; other pairs only assert conservation of root entries",
        "mean/variance compared with rel/abs 1e-9; everything else bit-exact",
    ]
    return acc, cov, assumptions


def replay(driver, args):
    vs, _ = check_seq(args["spec"], core.unshow_evs(args["evs"]))
    return vs
