"""C08 — scaling by a factor equals refilling with every weight multiplied by it. DESIGN §3 C08."""
import itertools
import math

from .. import alphabet as A
from .. import canon as C
from .. import core
from .. import framework as FW
from .. import invariants as I
from .. import refmodel as R
from .. import spec as S

PROP = "C08"
NAN = float("nan")
FACTORS = [0.5, 2.0, 4.0, 1, 1.0, 2, 3, 0, 0.0, -1, -0.5, NAN]
POS = [0.5, 2.0, 4.0]


def has_transform(spec):
    return any(n.get("tr") for _, _, n in S.node_ids(spec))


def check_state(spec, hist, reloaded, cont):
    """All scaling laws for one state (given by its fill history); reloaded: scale the JSON reload instead
    (reloaded == "pickled": scale the pickle clone, which is as mutable as the original)."""
    import histogrammar as hg
    from histogrammar.defs import ContainerException

    args = {"spec": spec, "hist": core.show_evs(hist), "reloaded": reloaded, "cont": core.show_evs(cont)}
    drv = "scale-pickled" if reloaded == "pickled" else ("scale-reloaded" if reloaded else "scale")
    out = []
    h = core.mk(spec, hist)
    if reloaded == "pickled":
        import pickle

        h = pickle.loads(pickle.dumps(h))
        reloaded = False
    if reloaded:
        h = hg.Factory.fromJson(h.toJson())
    hdoc = h.toJson()
    transform = has_transform(spec)
    for f in FACTORS:
        fa = dict(args, factor=A.show(float(f)) if isinstance(f, float) else f)
        for side in ("h*f", "f*h"):
            try:
                r = h * f if side == "h*f" else f * h
            except ContainerException as e:
                if transform:
                    continue  # documented refusal
                out.append(core.v_exc(PROP, drv, side + " raised", e, fa))
                continue
            except Exception as e:
                out.append(core.v_exc(PROP, drv, side + " raised", e, fa))
                continue
            if transform:
                # the refusal is only promised where a live Count(transform) node is actually scaled
                if spec["t"] == "Count" and not reloaded and f > 0:
                    out.append(FW.violation(PROP, drv, "Count(transform).__mul__", "scaled-despite-transform", fa, {}))
                continue
            try:
                rdoc = r.toJson()
            except Exception as e:
                out.append(core.v_exc(PROP, drv, "toJson of scaled result raised", e, fa))
                continue
            d = C.diff(rdoc, R.ref_doc(spec, R.scale_events(hist, f)))
            if d:
                out.append(core.v_diff(PROP, drv, side + " differs from refill with scaled weights", d, rdoc, fa))
            if r is h:
                out.append(FW.violation(PROP, drv, spec["t"] + ".__mul__", "returned-self", fa, {}))
            vw = I.views(r)
            if vw:
                out.append(FW.violation(PROP, drv, "%s of the scaled result" % vw[1], "handle-on-child-not-scaled", fa,
                                        {"path": vw[0], "message": vw[2]}))
        d = C.diff(h.toJson(), hdoc, tol_keys=())
        if d:
            out.append(core.v_diff(PROP, drv, "operand changed by scaling", d, h.toJson(), fa))
            return out
    if transform or out:
        return out
    try:
        # h*1 == h ; h*2 == h+h
        for nm, l, r in (("h*1 vs h", h * 1, h), ("h*2 vs h+h", h * 2, h + h)):
            d = C.diff(l.toJson(), r.toJson())
            if d:
                out.append(core.v_diff(PROP, drv, nm, d, l.toJson(), args))
        # ... also for the library's own equality (same keys, same types, not only the same document)
        import histogrammar.util as U

        for nm, mk_, tol in (("h*1 == h", lambda: (h * 1, h), 0.0), ("1*h == h", lambda: (1 * h, h), 0.0),
                             ("h*2 == h+h", lambda: (h * 2, h + h), 1e-9)):
            U.relativeTolerance, U.absoluteTolerance = tol, tol
            try:
                l, r = mk_()
                if not (l == r) or not (r == l):
                    out.append(FW.violation(PROP, drv, "%s is False for %s" % (nm, type(h).__name__), "not-equal", args, {}))
            finally:
                U.relativeTolerance, U.absoluteTolerance = 0.0, 0.0
        # multiplicativity
        for a, b in itertools.product(POS, POS):
            l, r = (h * a) * b, h * (a * b)
            d = C.diff(l.toJson(), r.toJson())
            if d:
                out.append(core.v_diff(PROP, drv, "(h*a)*b vs h*(a*b)", d, l.toJson(), dict(args, a=a, b=b)))
                break
        # commutes with JSON
        for f in POS:
            l = hg.Factory.fromJson((h * f).toJson()).toJson()
            r = (hg.Factory.fromJson(h.toJson()) * f).toJson()
            d = C.diff(r, l)
            if d:
                out.append(core.v_diff(PROP, drv, "fromJson(h)*f vs fromJson(h*f)", d, r, dict(args, factor=f)))
                break
    except Exception as e:
        out.append(core.v_exc(PROP, drv, "scaling law evaluation raised", e, args))
        return out
    if reloaded or out:
        return out
    # the scaled object must stay first-class
    for f in (0.5, 2, 0):
        fa = dict(args, factor=f)
        try:
            r = h * f
            base = R.scale_events(hist, f)
            hash(r)
            for e in cont:
                r.fill(A.fresh(e[0]), e[1])
            d = C.diff(r.toJson(), R.ref_doc(spec, base + cont))
            if d:
                out.append(core.v_diff(PROP, "scale-continue", "filled scaled object differs from reference", d,
                                       r.toJson(), fa))
                continue
            g = core.mk(spec, cont)
            s = r + g
            d = C.diff(s.toJson(), R.ref_doc(spec, base + cont + cont))
            if d:
                out.append(core.v_diff(PROP, "scale-continue", "scaled + unscaled differs from reference", d,
                                       s.toJson(), fa))
            s2 = g + r
            d = C.diff(s2.toJson(), s.toJson())
            if d:
                out.append(core.v_diff(PROP, "scale-continue", "unscaled + scaled differs from scaled + unscaled", d,
                                       s2.toJson(), fa))
            r += g
            d = C.diff(r.toJson(), R.ref_doc(spec, base + cont + cont))
            if d:
                out.append(core.v_diff(PROP, "scale-continue", "scaled += unscaled differs from reference", d,
                                       r.toJson(), fa))
            c = r.copy()
            d = C.diff(c.toJson(), r.toJson())
            if d:
                out.append(core.v_diff(PROP, "scale-continue", "copy of scaled object differs", d, c.toJson(), fa))
            rr = r * 0.5
            d = C.diff(rr.toJson(), R.ref_doc(spec, R.scale_events(base + cont + cont, 0.5)))
            if d:
                out.append(core.v_diff(PROP, "scale-continue", "second scaling differs from reference", d,
                                       rr.toJson(), fa))
            hash(r)
            hg.Factory.fromJson(r.toJson())
            vw = I.views(r)
            if vw:
                out.append(FW.violation(PROP, "scale-continue", "%s of the scaled result after fills and merges" % vw[1],
                                        "handle-on-child-not-updated", fa, {"path": vw[0], "message": vw[2]}))
        except Exception as e:
            out.append(core.v_exc(PROP, "scale-continue", "continuation on scaled object raised", e, fa))
    d = C.diff(h.toJson(), hdoc, tol_keys=())
    if d:
        out.append(core.v_diff(PROP, drv, "operand changed by continuation on scaled result", d, h.toJson(), args))
    return out


def check_built(spec, ha, hb):
    """Containers assembled by Stack.build / Fraction.build from separately aggregated pieces scale like any other."""
    import histogrammar as hg

    args = {"spec": spec, "ha": core.show_evs(ha), "hb": core.show_evs(hb)}
    out = []
    try:
        st = hg.Stack.build(core.mk(spec, ha), core.mk(spec, hb))
        fr = hg.Fraction.build(core.mk(spec, ha), core.mk(spec, hb))
        stdoc, frdoc = st.toJson(), fr.toJson()
    except Exception as e:
        return [core.v_exc(PROP, "scale-built", "Stack.build/Fraction.build raised", e, args)]
    for f in FACTORS:
        fa = dict(args, factor=A.show(float(f)) if isinstance(f, float) else f)
        sa, sb = R.scale_events(ha, f), R.scale_events(hb, f)
        try:
            for side in ("s*f", "f*s"):
                r = st * f if side == "s*f" else f * st
                got = r.toJson()["data"]
                exp = [{"atleast": "nan", "data": R.ref_doc(spec, sa + sb)["data"]},
                       {"atleast": "nan", "data": R.ref_doc(spec, sb)["data"]}]
                d = C.diff(got["bins"], exp, drop_names=True)
                if d:
                    out.append(core.v_diff(PROP, "scale-built", "scaled Stack.build result differs from the scaled pieces", d,
                                           r.toJson(), fa))
                    continue
                hash(r)
                back = hg.Factory.fromJson(r.toJson()).toJson()
                d = C.diff(back, r.toJson(), tol_keys=())
                if d:
                    out.append(core.v_diff(PROP, "scale-built", "scaled Stack.build result does not round-trip", d, back, fa))
                if not (f > 0):
                    # the empty Stack of the same structure is neutral for + with the original
                    for nm, m in (("z+s", r + st), ("s+z", st + r)):
                        d = C.diff(m.toJson(), stdoc)
                        if d:
                            out.append(core.v_diff(PROP, "scale-built", "%s differs from s (z = s scaled by a non-positive "
                                                   "factor)" % nm, d, m.toJson(), fa))
                r = fr * f if side == "s*f" else f * fr
                got = r.toJson()["data"]
                d = C.diff([got["numerator"], got["denominator"]],
                           [R.ref_doc(spec, sa)["data"], R.ref_doc(spec, sb)["data"]], drop_names=True)
                if d:
                    out.append(core.v_diff(PROP, "scale-built", "scaled Fraction.build result differs from the scaled pieces", d,
                                           r.toJson(), fa))
        except Exception as e:
            out.append(core.v_exc(PROP, "scale-built", "scaling a Stack.build/Fraction.build result raised", e, fa))
    for o, d0, nm in ((st, stdoc, "Stack.build"), (fr, frdoc, "Fraction.build")):
        d = C.diff(o.toJson(), d0, tol_keys=())
        if d:
            out.append(core.v_diff(PROP, "scale-built", "%s result changed by scaling" % nm, d, o.toJson(), args))
    return out


def check_distrib(spec, ha, hb):
    args = {"spec": spec, "ha": core.show_evs(ha), "hb": core.show_evs(hb)}
    out = []
    try:
        g, h = core.mk(spec, ha), core.mk(spec, hb)
        for f in (0.5, 2):
            l = (g + h) * f
            r = g * f + h * f
            d = C.diff(l.toJson(), r.toJson())
            if d:
                out.append(core.v_diff(PROP, "scale-distrib", "(g+h)*f vs g*f+h*f", d, l.toJson(), dict(args, factor=f)))
    except Exception as e:
        out.append(core.v_exc(PROP, "scale-distrib", "raised", e, args))
    return out


def _tree(task):
    spec, tier = task
    acc = FW.Acc()
    acc.n("trees")
    d = S.depth(spec)
    cap = 8 if tier == "quick" else (12 if d <= 2 else 8)
    n = 2 if (tier == "quick" or d >= 3) else 3
    if d == 1 and tier != "quick":
        cap = 12
    evs = A.events(spec, "core", cap=cap, noop=False, weights=[1.0, 0.5] if n == 2 else [1.0])
    Rs = core.reachable(spec, evs, n, acc)
    acc.n("states", len(Rs))
    hists = list(Rs.values())
    for i, hist in enumerate(hists):
        cont = (hist[:1] or []) + [evs[(i * 7 + 3) % len(evs)]]
        for reloaded in (False, True, "pickled"):
            acc.add(check_state(spec, hist, reloaded, cont))
            acc.n("state_checks")
            acc.n("transitions", 2 * len(FACTORS) + 20)
        acc.distinct("states", FW.hkey((S.key(spec), i)))
        if any(not math.isfinite(float(r.get("x", 0))) or (isinstance(r.get("y"), float) and not math.isfinite(r["y"]))
               for r, _ in hist):
            acc.n("states_with_nonfinite_data")
    small = hists[: 12 if tier == "quick" else 30]
    if not has_transform(spec):
        for ha, hb in itertools.product(small, small):
            acc.add(check_distrib(spec, ha, hb))
            acc.n("distrib_pairs")
            acc.n("transitions", 10)
        for ha, hb in itertools.product(small[:4], small[:4]):
            acc.add(check_built(spec, ha, hb))
            acc.n("built_pairs")
            acc.n("transitions", 4 * len(FACTORS))
    if len(hists) > 1:
        acc.sample({"state": core.sample_hist(spec, hists[-1]), "factors": [A.show(float(f)) for f in FACTORS],
                    "then": "fill/+/+=/hash/copy/*0.5 on h*f"})
    return acc.freeze_sets()


def trees(tier):
    t = S.D1() + S.D2()
    if tier != "quick":
        t += S.D3_quick() + S.D3flow() + S.D3()
    else:
        t += S.D3flow()[:10]
    t += S.DX()
    seen, out = set(), []
    for s in t:
        k = S.key(s)
        if k not in seen:
            seen.add(k)
            out.append(s)
    return out


def run(tier, seed):
    ts = trees(tier)
    accs = FW.pmap(_tree, [(t, tier) for t in ts], seed)
    acc = FW.Acc()
    for a in accs:
        acc.merge(a)
    ev = acc.c.get("state_checks", 0) + acc.c.get("distrib_pairs", 0)
    cov = {
        "states": acc.c.get("states", 0),
        "transitions": acc.c.get("transitions", 0) + acc.c.get("fill_sequences_executed", 0),
        "traces_validated_against_impl": ev,
        "evaluations": ev,
        "distinct_nontrivial": len(acc.sets.get("states", ())),
        "rule": "per tree: every state reachable by <=n fills (mutable, JSON-reloaded and pickle clone) x every factor in "
                "{0.5,2.0,4.0,1,1.0,2,3,0,0.0,-1,-0.5,NaN} on both sides of *, compared with the reference refill with scaled "
                "weights; (h*a)*b==h*(a*b) over factor pairs; h*1==h; h*2==h+h; JSON commutation; distributivity over all "
                "pairs of a smaller reachable set; then fill,+,+=,hash,copy,second scaling on h*f for f in {0.5,2,0}",
        "exhaustive": True,
        "bounds": {"trees": len(ts), "n": "2 (quick, depth 3) / 3 (thorough depth<=2)"},
    }
    assumptions = ["reference: scaled multiset (weights x f; f<=0 or NaN -> empty), hgmc/refmodel.py",
                   "trees containing Count(transform) must refuse scaling for f>0 (documented)"]
    return acc, cov, assumptions


def replay(driver, args):
    spec = args["spec"]
    if driver == "scale-built":
        return check_built(spec, core.unshow_evs(args["ha"]), core.unshow_evs(args["hb"]))
    if driver == "scale-distrib":
        return check_distrib(spec, core.unshow_evs(args["ha"]), core.unshow_evs(args["hb"]))
    return check_state(spec, core.unshow_evs(args["hist"]), args.get("reloaded", False), core.unshow_evs(args["cont"]))
