"""C16 — one aggregator placed at two positions of a tree is detected, not double-filled. DESIGN §3 C16."""
import itertools

import numpy as np

from .. import canon as C
from .. import core
from .. import framework as FW
from .. import spec as S

PROP = "C16"

REC = {"x": 0.5, "y": 0.5, "c": "a", "s": True, "b": "p", "v": (0.0, 1.0)}


def positions(h, path=()):
    """Fillable positions below (and including) h: list of (path, parent, setter-key, node)."""
    out = []
    t = h.name

    def add(key, node):
        out.append((path + (key,), h, key, node))
        out.extend(positions(node, path + (key,)))

    if t == "Bin":
        for i in range(len(h.values)):
            add(("values", i), h.values[i])
        for k in ("underflow", "overflow", "nanflow"):
            add((k,), getattr(h, k))
    elif t == "SparselyBin":
        add(("nanflow",), h.nanflow)
        for k in list(h.bins):
            add(("bins", k), h.bins[k])
    elif t in ("CentrallyBin", "IrregularlyBin", "Stack"):
        add(("nanflow",), h.nanflow)
        for i in range(len(h.bins)):
            add(("pairs", i), h.bins[i][1])
    elif t == "Categorize":
        for k in list(h.bins):
            add(("bins", k), h.bins[k])
    elif t == "Fraction":
        add(("numerator",), h.numerator)
        add(("denominator",), h.denominator)
    elif t == "Select":
        add(("cut",), h.cut)
    elif t in ("Label", "UntypedLabel"):
        for k in list(h.pairs):
            add(("pairs", k), h.pairs[k])
    elif t in ("Index", "Branch"):
        for i in range(len(h.values)):
            add(("values", i), h.values[i])
    return out


def install(parent, key, node):
    """Attribute surgery: put `node` at position `key` of `parent`."""
    k = key[0]
    if k in ("underflow", "overflow", "nanflow", "numerator", "denominator", "cut"):
        if parent.name == "Select" and k == "cut":
            parent.__dict__["cut"] = node
        else:
            setattr(parent, k, node)
    elif k == "values":
        vals = list(parent.values)
        vals[key[1]] = node
        parent.values = vals if parent.name == "Bin" else tuple(vals)
        if parent.name == "Branch":
            setattr(parent, "i%d" % key[1], node)
    elif k == "bins":
        parent.bins[key[1]] = node
    elif k == "pairs":
        if parent.name in ("Label", "UntypedLabel"):
            parent.pairs[key[1]] = node
        else:
            b = list(parent.bins)
            b[key[1]] = (b[key[1]][0], node)
            parent.bins = tuple(b) if isinstance(parent.bins, tuple) else b


def prefill(spec):
    """A fresh tree whose sparse containers already have bins (so that they have fillable positions)."""
    h = S.build(spec)
    return h


def shape_of(node):
    """Structural type signature used to decide which positions may hold the same object."""
    return C.norm(node.zero().toJson(), drop_names=True) if hasattr(node, "zero") else None


def attempt(h, mode, callno=2):
    """Call 1 uses a record that fails every cut (s False), call 3 one whose selection weight is exactly 0.0, the
    others a passing record: a tree with a shared node must be refused whatever the data are."""
    rec = dict(REC)
    if callno == 1:
        rec["s"] = False
    elif callno == 3:
        rec["s"] = 0.0
    if mode == "fill":
        h.fill(rec)
    else:
        from .c03 import to_batch

        h.fill.numpy(to_batch([dict(rec), dict(rec)]))


def check_shared(spec, pa, pb, mode, via):
    """Install the object found at position pa also at position pb (via attribute surgery), then fill.
    via == "preverified": the top-level subtree containing pa was filled successfully on its own beforehand (a walk
    that trusts already-verified subtrees must still see their nodes)."""
    from histogrammar.defs import ContainerException

    args = {"spec": spec, "pa": [list(k) for k in pa], "pb": [list(k) for k in pb], "mode": mode, "via": via}
    out = []
    try:
        h = S.build(spec)
        pos = {p: (par, key, node) for p, par, key, node in positions(h)}
        pos[()] = (None, None, h)
        a = pos[tuple(pa)]
        b = pos[tuple(pb)]
        if via == "preverified":
            sub = pos[tuple(pa[:1])][2]
            # (a subtree without any quantity cannot be filled from arrays on its own: it has no way to learn the
            # number of rows - C03 is about trees with at least one quantity-bearing node; fill it row-wise then)
            from ..invariants import _kids

            def has_quantity(n):
                return getattr(n, "quantity", None) is not None and n.name != "Count" or any(
                    has_quantity(k) for _, k in _kids(n))

            attempt(sub, mode if has_quantity(sub) else "fill", 2)
        install(b[0], b[1], a[2])
    except Exception as e:
        return [core.v_exc(PROP, "shared", "harness could not build the shared tree", e, args)]
    rel = relation(pa, pb)
    before = None
    for callno in (1, 2, 3):
        try:
            before = h.toJson() if rel != "descendant" else None
        except Exception:
            before = None
        try:
            attempt(h, mode, callno)
        except ContainerException:
            if before is not None:
                try:
                    d = C.diff(h.toJson(), before, tol_keys=())
                except Exception:
                    d = None
                if d:
                    out.append(core.v_diff(PROP, "shared", "state changed although the shared node was detected (%s)" % rel,
                                           d, h.toJson(), dict(args, call=callno)))
                    return out
            continue
        except RecursionError as e:
            out.append(FW.violation(PROP, "shared", "%s:%s" % (rel, mode), "RecursionError-instead-of-ContainerException",
                                    dict(args, call=callno), {}))
            return out
        except Exception as e:
            out.append(core.v_exc(PROP, "shared", "fill of a tree with a shared node (%s) raised something else" % rel, e,
                                  dict(args, call=callno)))
            return out
        out.append(FW.violation(PROP, "shared", "%s:%s" % (rel, mode),
                                "filled-silently-on-call-%s" % ("1" if callno == 1 else "n"), dict(args, call=callno), {}))
        return out
    # the user repairs the tree (the original, distinct object back at the second position): no node is shared any
    # more, so the tree must now be accepted - a rejected walk may not leave anything behind
    try:
        install(b[0], b[1], b[2])
        attempt(h, mode)
        attempt(h, mode)
    except ContainerException as e:
        out.append(FW.violation(PROP, "shared", "repaired-after-rejection:%s" % mode, "rejected-without-shared-node",
                                args, {"exception": str(e)[:200]}))
    except Exception as e:
        out.append(core.v_exc(PROP, "shared", "fill of the repaired tree raised", e, args))
    return out


def relation(pa, pb):
    pa, pb = tuple(map(tuple, pa)), tuple(map(tuple, pb))
    if pb[: len(pa)] == pa or pa[: len(pb)] == pb:
        return "descendant"
    if pa[:-1] == pb[:-1]:
        return "siblings"
    return "cousins"


def check_constructed(kind, mode):
    """Sharing through the public constructors that keep their arguments."""
    import histogrammar as hg
    from histogrammar.defs import ContainerException

    args = {"constructed": kind, "mode": mode}
    q = lambda d: d["x"]  # noqa: E731
    s = lambda d: d["s"]  # noqa: E731
    c = hg.Sum(q)
    b = hg.Bin(2, 0.0, 2.0, q)
    trees = {
        "Label(a=c,b=c)": lambda: hg.Label(a=c, b=c),
        "UntypedLabel(a=c,b=c)": lambda: hg.UntypedLabel(a=c, b=c),
        "Index(c,c)": lambda: hg.Index(c, c),
        "Branch(c,c)": lambda: hg.Branch(c, c),
        "Branch(Select(s,b),Select(s,b))": lambda: hg.Branch(hg.Select(s, b), hg.Select(s, b)),
        "Branch(b,Select(s,b))": lambda: hg.Branch(b, hg.Select(s, b)),
        "Label(a=Select(s,c),b=Select(s,c))": lambda: hg.Label(a=hg.Select(s, c), b=hg.Select(s, c)),
        "Index(Branch(c,b),Branch(b,c))": lambda: hg.Index(hg.Branch(c, hg.Count()), hg.Branch(hg.Count(), c)),
        "Branch(c,Branch(Count,Branch(c)))": lambda: hg.Branch(c, hg.Branch(hg.Count(), hg.Branch(c))),
        "Branch(filled Select(s,c), c)": lambda: hg.Branch(_filled(hg.Select(s, c), mode), c),
        "Label(a=filled Select(s,b), b=Select(s,b))": lambda: hg.Label(a=_filled(hg.Select(s, b), mode), b=hg.Select(s, b)),
        "Select(s, Branch(c,c))": lambda: hg.Select(s, hg.Branch(c, c)),
        "Fraction root: numerator is denominator": lambda: _frac(hg, s, c),
        # the collections' .ed() constructors keep live (fillable) aggregators too
        "Label.ed(0,a=c,b=c)": lambda: hg.Label.ed(0.0, a=c, b=c),
        "UntypedLabel.ed(0,a=c,b=c)": lambda: hg.UntypedLabel.ed(0.0, a=c, b=c),
        "Index.ed(0,c,c)": lambda: hg.Index.ed(0.0, c, c),
        "Branch.ed(0,c,c)": lambda: hg.Branch.ed(0.0, c, c),
        "Branch.ed(0,Select(s,b),Select(s,b))": lambda: hg.Branch.ed(0.0, hg.Select(s, b), hg.Select(s, b)),
        "Branch(Count,Index.ed(0,c,c))": lambda: hg.Branch(hg.Count(), hg.Index.ed(0.0, c, c)),
        "Label.ed(0,a=Branch(c,Count),b=Branch(Count,c))": lambda: hg.Label.ed(0.0, a=hg.Branch(c, hg.Count()),
                                                                              b=hg.Branch(hg.Count(), c)),
    }
    out = []
    try:
        h = trees[kind]()
    except Exception as e:
        return [core.v_exc(PROP, "constructed", "constructor raised", e, args)]
    for callno in (1, 2, 3):
        before = h.toJson()
        try:
            attempt(h, mode, callno)
        except ContainerException:
            d = C.diff(h.toJson(), before, tol_keys=())
            if d:
                out.append(core.v_diff(PROP, "constructed", "state changed although the shared node was detected", d,
                                       h.toJson(), dict(args, call=callno)))
                return out
            continue
        except Exception as e:
            out.append(core.v_exc(PROP, "constructed", "raised something else", e, dict(args, call=callno)))
            return out
        out.append(FW.violation(PROP, "constructed", "siblings-or-cousins:%s" % mode,
                                "filled-silently-on-call-%s" % ("1" if callno == 1 else "n"), dict(args, call=callno), {}))
        return out
    return out


def _filled(h, mode):
    attempt(h, mode, 2)
    return h


def _frac(hg, s, c):
    f = hg.Fraction(s, hg.Sum(lambda d: d["x"]))
    f.denominator = f.numerator
    return f


CONSTRUCTED = ["Branch(filled Select(s,c), c)", "Label(a=filled Select(s,b), b=Select(s,b))", "Select(s, Branch(c,c))",
               "Fraction root: numerator is denominator","Label(a=c,b=c)", "UntypedLabel(a=c,b=c)", "Index(c,c)", "Branch(c,c)", "Branch(Select(s,b),Select(s,b))",
               "Branch(b,Select(s,b))", "Label(a=Select(s,c),b=Select(s,c))", "Index(Branch(c,b),Branch(b,c))",
               "Branch(c,Branch(Count,Branch(c)))", "Label.ed(0,a=c,b=c)", "UntypedLabel.ed(0,a=c,b=c)", "Index.ed(0,c,c)",
               "Branch.ed(0,c,c)", "Branch.ed(0,Select(s,b),Select(s,b))", "Branch(Count,Index.ed(0,c,c))",
               "Label.ed(0,a=Branch(c,Count),b=Branch(Count,c))"]


def check_unshared(spec, mode, shared_template):
    """Negative side: trees without shared nodes (optionally sharing one never-filled template) must be fillable."""
    import histogrammar as hg
    from histogrammar.defs import ContainerException

    args = {"spec": spec, "mode": mode, "shared_template": shared_template}
    try:
        if shared_template:
            q = lambda d: d["x"]  # noqa: E731
            t = S.build(spec)
            h = hg.Branch(hg.SparselyBin(1.0, q, t), hg.SparselyBin(0.5, q, t), hg.Categorize(lambda d: d["c"], t),
                          hg.Label(a=hg.SparselyBin(1.0, q, t), b=hg.SparselyBin(1.0, q, t)))
        else:
            h = S.build(spec)
        if mode == "numpy" and not S.fields(spec) and not shared_template:
            return []
        for _ in range(3):
            attempt(h, mode)
    except ContainerException as e:
        return [FW.violation(PROP, "unshared", "%s:%s" % ("shared-template" if shared_template else "plain", mode),
                             "rejected-without-shared-node", args, {"exception": str(e)[:200]})]
    except Exception as e:
        return [core.v_exc(PROP, "unshared", "fill of an unshared tree raised", e, args)]
    return []


def _tree(task):
    spec, tier = task
    acc = FW.Acc()
    acc.n("trees")
    h = S.build(spec)
    # give sparse containers bins so that they have fillable positions: fill once
    pos = positions(h)
    sig = {}
    for p, par, key, node in pos:
        try:
            sig[p] = (node.name, shape_of(node))
        except Exception:
            sig[p] = (node.name, None)
    for mode in ("fill", "numpy"):
        if mode == "numpy" and not S.fields(spec):
            continue
        for (pa, _, _, na), (pb, _, _, nb) in itertools.combinations(pos, 2):
            if sig[pa] != sig[pb]:
                continue
            for a, b in ((pa, pb), (pb, pa)):
                acc.add(check_shared(spec, a, b, mode, "surgery"))
                acc.n("shared_cases")
                acc.n("expected_to_raise")
                acc.n("relation_" + relation(a, b))
                acc.distinct("cases", FW.hkey((S.key(spec), repr(a), repr(b), mode)))
                if len(a) >= 2 and tuple(b[:1]) != tuple(a[:1]) and (mode == "fill" or S.fields(spec)):
                    # the subtree holding the first occurrence was used (and verified) on its own before
                    acc.add(check_shared(spec, a, b, mode, "preverified"))
                    acc.n("shared_cases")
                    acc.n("preverified_cases")
        # a node installed below itself
        for p, par, key, node in [((), None, None, h)] + pos:
            for p2, par2, key2, node2 in pos:
                if len(p2) > len(p) and p2[: len(p)] == p and not node.name == "Count":
                    acc.add(check_shared(spec, p, p2, mode, "surgery"))
                    acc.n("shared_cases")
                    acc.n("expected_to_raise")
                    acc.n("relation_descendant")
                    acc.distinct("cases", FW.hkey((S.key(spec), repr(p), repr(p2), mode, "desc")))
        acc.add(check_unshared(spec, mode, False))
        acc.add(check_unshared(spec, mode, True))
        acc.n("unshared_cases", 2)
    if pos:
        acc.sample({"tree": S.sid(spec), "positions": [[list(k) for k in p] for p, _, _, _ in pos[:4]],
                    "case": "same object installed at two positions, then fill / fill.numpy three times"})
    return acc.freeze_sets()


def honest_constructions():
    """Trees in which every aggregator the user passed in is a distinct object, built through the less common constructor
    forms (explicit (threshold, aggregator) pairs, defaulted nanflow / cut / value arguments, several of them in one tree)."""
    import histogrammar as hg

    q = lambda d: d["x"]  # noqa: E731
    s = lambda d: d["s"]  # noqa: E731
    C_ = hg.Count
    return {
        "two Stacks given as (threshold, aggregator) pairs": lambda: hg.Branch(
            hg.Stack([(float("-inf"), C_()), (1.0, C_())], q, None), hg.Stack([(float("-inf"), C_()), (2.0, C_())], q, None)),
        "two IrregularlyBins given as (threshold, aggregator) pairs": lambda: hg.Branch(
            hg.IrregularlyBin([(float("-inf"), C_()), (1.0, C_())], q, None), hg.IrregularlyBin([(float("-inf"), C_()), (2.0, C_())], q, None)),
        "two CentrallyBins with defaulted value and nanflow": lambda: hg.Label(a=hg.CentrallyBin([0.0, 1.0], q), b=hg.CentrallyBin([0.0, 2.0], q)),
        "two Bins with defaulted value and flows": lambda: hg.Index(hg.Bin(2, 0.0, 2.0, q), hg.Bin(3, 0.0, 3.0, q)),
        "two Selects with defaulted cut": lambda: hg.Branch(hg.Select(s), hg.Select(s)),
        "two Fractions with defaulted value": lambda: hg.Branch(hg.Fraction(s), hg.Fraction(s)),
        "two Categorizes and two SparselyBins with defaulted value": lambda: hg.UntypedLabel(
            a=hg.Categorize(lambda d: d["c"]), b=hg.Categorize(lambda d: d["c"]), c=hg.SparselyBin(1.0, q), d=hg.SparselyBin(2.0, q)),
        "Stack and IrregularlyBin with defaulted value": lambda: hg.Branch(hg.Stack([0.0, 1.0], q), hg.Stack([0.0, 2.0], q),
                                                                        hg.IrregularlyBin([0.0], q), hg.IrregularlyBin([1.0], q)),
    }


def check_honest(name, mode):
    from histogrammar.defs import ContainerException

    args = {"honest": name, "mode": mode}
    try:
        h = honest_constructions()[name]()
        for callno in (1, 2, 3):
            attempt(h, mode, callno)
    except ContainerException as e:
        return [FW.violation(PROP, "unshared", "constructed:%s" % mode, "rejected-without-shared-node", args, {"exception": str(e)[:200]})]
    except Exception as e:
        return [core.v_exc(PROP, "unshared", "fill of an honestly constructed tree raised", e, args)]
    return []


def _constructed(task):
    kind, mode = task
    acc = FW.Acc()
    if kind.startswith("honest:"):
        acc.add(check_honest(kind[7:], mode))
        acc.n("unshared_cases")
        acc.distinct("cases", FW.hkey((kind, mode)))
        return acc.freeze_sets()
    acc.add(check_constructed(kind, mode))
    acc.n("shared_cases")
    acc.n("constructed_cases")
    acc.distinct("cases", FW.hkey((kind, mode)))
    return acc.freeze_sets()


def _dispatch(task):
    return _tree(task[1]) if task[0] == "tree" else _constructed(task[1])


def trees(tier):
    t = [s for s in S.D2() if s["t"] in S.COLL or s["t"] in ("Bin", "CentrallyBin", "IrregularlyBin", "Stack", "Fraction",
                                                              "Select")]
    t += S.D3flow() + S.D3_quick()
    # nestings in which a node can be installed as its own descendant
    cnt, sm = {"t": "Count"}, {"t": "Sum", "q": "y"}
    t += [{"t": "Select", "q": "s", "v": {"t": "Select", "q": "s", "v": cnt}},
          {"t": "Branch", "ch": [{"t": "Branch", "ch": [cnt, sm]}, sm]},
          {"t": "Bin", "p": S.BIN_CFG[0], "q": "x", "v": {"t": "Bin", "p": S.BIN_CFG[0], "q": "y", "v": cnt}},
          {"t": "Label", "ch": {"a": {"t": "Label", "ch": {"a": sm, "b": sm}}, "b": {"t": "Label", "ch": {"a": sm, "b": sm}}}},
          {"t": "Fraction", "q": "s", "v": {"t": "Fraction", "q": "s", "v": cnt}}]
    d3 = [s for s in S.D3() if s["t"] in S.COLL or s["v"]["t"] in S.COLL or s["t"] in ("Bin", "Fraction", "Select",
                                                                                      "CentrallyBin")]
    t += d3 if tier != "quick" else d3[::6]
    t += [x for x in S.DX() if not any(n.get("qk") for _, _, n in S.node_ids(x))]
    seen, out = set(), []
    for s in t:
        k = S.key(s)
        if k not in seen:
            seen.add(k)
            out.append(s)
    return out


def run(tier, seed):
    ts = trees(tier)
    tasks = [("tree", (t, tier)) for t in ts] + [("c", (k, m)) for k in CONSTRUCTED for m in ("fill", "numpy")] + [
        ("c", ("honest:" + k, m)) for k in honest_constructions() for m in ("fill", "numpy")]
    accs = FW.pmap(_dispatch, tasks, seed)
    acc = FW.Acc()
    for a in accs:
        acc.merge(a)
    ev = acc.c.get("shared_cases", 0) + acc.c.get("unshared_cases", 0)
    cov = {
        "states": len(acc.sets.get("cases", ())),
        "transitions": 3 * ev,
        "traces_validated_against_impl": ev,
        "evaluations": ev,
        "distinct_nontrivial": len(acc.sets.get("cases", ())),
        "rule": "per tree: every ordered pair of fillable positions whose subtrees have the same structure (siblings, "
                "cousins, a flow slot and a bin, a node and its own descendant): the object at the first is installed at the "
                "second; fill and fill.numpy are attempted three times (a guard that marks nodes checked before raising must "
                "not let later calls through): ContainerException and unchanged state required; plus sharing through the "
                "public constructors that keep their arguments; negative side: every unshared tree and trees whose sparse "
                "containers share one never-filled template must be filled without rejection",
        "exhaustive": True,
        "bounds": {"trees": len(ts), "constructed": len(CONSTRUCTED)},
    }
    assumptions = ["sharing introduced by surgery after a successful fill is not asserted (the guard is a once-only check)",
                   "for a node that is its own descendant the state comparison is skipped (toJson of a cyclic tree diverges)"]
    return acc, cov, assumptions


def replay(driver, args):
    if "honest" in args:
        return check_honest(args["honest"], args["mode"])
    if "constructed" in args:
        return check_constructed(args["constructed"], args["mode"])
    if driver == "unshared":
        return check_unshared(args["spec"], args["mode"], args["shared_template"])
    pa = [tuple(k) for k in args["pa"]]
    pb = [tuple(k) for k in args["pb"]]
    return check_shared(args["spec"], pa, pb, args["mode"], args["via"])
