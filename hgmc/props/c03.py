"""C03 — fill.numpy is observationally equal to per-row fill. DESIGN §3 C03."""
import itertools
import math

import numpy as np

from .. import alphabet as A
from .. import canon as C
from .. import core
from .. import framework as FW
from .. import spec as S

from .c02 import inexact_nodes

PROP = "C03"

DTYPE = [("x", "f8"), ("y", "f8"), ("c", "U8"), ("s", "f8"), ("b", "U8"), ("v", "f8", (2,))]  # (U8: "entries" must fit)


def to_batch(recs, rep="rec"):
    arr = np.zeros(len(recs), dtype=DTYPE)
    for i, r in enumerate(recs):
        arr[i] = (float(r["x"]), float(r["y"]), str(r["c"]), float(r["s"]), str(r["b"]), tuple(r["v"]))
    if rep == "rec":
        return arr.view(np.recarray)
    if rep == "dict":
        return {n: arr[n].copy() for n in arr.dtype.names}
    if rep == "df":
        import pandas as pd

        return pd.DataFrame({n: (arr[n].copy() if n != "v" else list(arr[n])) for n in arr.dtype.names})
    raise ValueError(rep)


def row_of(batch_arr, i):
    r = batch_arr[i]
    return {"x": float(r["x"]), "y": float(r["y"]), "c": str(r["c"]), "s": float(r["s"]), "b": str(r["b"]),
            "v": tuple(float(t) for t in r["v"])}


def norm_rec(r):
    """Record as the row-wise twin will see it (numpy cannot hold None/NaN in a str column, or bool in f8)."""
    out = dict(r)
    out["s"] = float(r["s"])
    out["c"] = str(r["c"])
    return out


def wmode_value(mode, n):
    """mode: ('none',) | ('scalar', w) | ('array', (w0..wn-1)). Returns (arg_or_None, per_row_weights)."""
    if mode[0] == "none":
        return None, [1.0] * n
    if mode[0] == "scalar":
        return mode[1], [float(mode[1])] * n
    return np.array(mode[1], dtype=np.float64), [float(w) for w in mode[1]]


def check_case(spec, recs, mode, cuts, rep="rec"):
    """recs: list of records; mode: weight mode for the whole batch; cuts: split points (sorted indexes) that cut
    the batch into successive fill.numpy calls. Returns violations."""
    args = {"spec": spec, "recs": [A.show(r) for r in recs], "mode": [mode[0]] + [A.show(m) for m in mode[1:]],
            "cuts": list(cuts), "rep": rep}
    out = []
    n = len(recs)
    recs = [norm_rec(r) for r in recs]
    bounds = [0] + list(cuts) + [n]
    if rep == "df":
        # the library reads a pandas.DataFrame only through string expressions (they see its columns as arrays)
        from .c11 import with_qk

        spec = with_qk(spec, "str")
    hn = S.build(spec)
    hr = S.build(spec)
    for pi_, (lo, hi) in enumerate(zip(bounds[:-1], bounds[1:])):
        piece = recs[lo:hi]
        if mode[0] == "array":
            pm = ("array", tuple(mode[1][lo:hi]))
        elif mode[0] == "scalars":
            # successive fill.numpy calls with *different* scalar weights (pieces of equal length included)
            pm = ("scalar", mode[1][pi_ % len(mode[1])])
        else:
            pm = mode
        warg, wrow = wmode_value(pm, len(piece))
        data = to_batch(piece, rep)
        if rep == "rec":
            before = data.tobytes()
        wbefore = None if not isinstance(warg, np.ndarray) else warg.tobytes()
        try:
            if warg is None:
                hn.fill.numpy(data)
            else:
                hn.fill.numpy(data, warg)
        except Exception as e:
            out.append(core.v_exc(PROP, "numpy-vs-row", "fill.numpy raised", e, args, {"piece": [lo, hi]}))
            return out
        if rep == "rec" and data.tobytes() != before:
            out.append(FW.violation(PROP, "numpy-vs-row", spec["t"] + "._numpy", "input-data-modified", args, {}))
        if wbefore is not None and warg.tobytes() != wbefore:
            out.append(FW.violation(PROP, "numpy-vs-row", spec["t"] + "._numpy", "input-weights-modified", args, {}))
        for r, w in zip(piece, wrow):
            hr.fill(r, w)
        dn, dr = hn.toJson(), hr.toJson()
        if histogram_fastpath(spec) and any(inexact_nodes(spec, r) for r in recs[:hi]):
            # index arithmetic rounds for one of these rows: the two paths may legitimately pick adjacent bins;
            # only conservation of the root total is asserted
            en = dn["data"]["entries"] if isinstance(dn["data"], dict) else dn["data"]
            er = dr["data"]["entries"] if isinstance(dr["data"], dict) else dr["data"]
            if C._num(en) != C._num(er):
                out.append(FW.violation(PROP, "numpy-vs-row", "root entries (inexact-index row)", "entries", args, {}))
                return out
            continue
        d = C.diff(dn, dr, prune_zero=True)
        if d:
            out.append(core.v_diff(PROP, "numpy-vs-row", "numpy-filled differs from row-filled", d, dn, args,
                                   {"piece": [lo, hi]}))
            return out
    return out


def histogram_fastpath(spec):
    """A Bin/CentrallyBin of plain Counts may be filled through np.histogram, whose binning arithmetic differs from
    the scalar formula in the last bit; every other node uses the same formula in both paths."""
    for _, _, n in S.node_ids(spec):
        if n["t"] in ("Bin", "CentrallyBin") and n["v"]["t"] == "Count" and not n["v"].get("tr"):
            return True
    return False


def quantity_bearing(spec):
    return bool(S.fields(spec))


def modes_for(n, tier, arr_ws=(0.0, 1.0, 0.5)):
    ms = [("none",), ("scalar", 1), ("scalar", 2.0), ("scalar", 0.5), ("scalar", 0.0), ("scalars", (1, 2.0, 0.5)),
          ("scalars", (2.0, 1))]
    if n > 0:
        for ws in itertools.product(arr_ws, repeat=n):
            ms.append(("array", ws))
    else:
        ms.append(("array", ()))
    return ms


def cuts_for(n, maxpieces):
    """All ways to cut a batch of n rows into 1..maxpieces successive pieces (empty pieces allowed)."""
    out = [()]
    if maxpieces >= 2:
        out += [(i,) for i in range(n + 1)]
    if maxpieces >= 3:
        out += [(i, j) for i in range(n + 1) for j in range(i, n + 1)]
    return out


def plan(spec, tier):
    d = S.depth(spec)
    if tier == "quick":
        # (a SparselyBin over further binning slices its input per bin: the dict-of-arrays form takes another code path)
        nested_sparse = any(n["t"] == "SparselyBin" and n["v"]["t"] not in S.LEAF_TYPES for _, _, n in S.node_ids(spec))
        return {"cap": 5 if d <= 2 else 4, "n": 2, "pieces": 2, "full1": True, "reps": ["rec", "dict"] if nested_sparse else ["rec"]}
    if d <= 2:
        # (a DataFrame only where no string column is read: with pandas 3 the str dtype hands the library an Arrow-backed
        # array instead of a numpy one - the environment limitation C14's statement names; vectors do not fit a column)
        reps = ["rec", "dict"] + (["df"] if not (S.fields(spec) & {"v", "c", "b"}) else [])
        return {"cap": 5, "n": 3, "pieces": 3, "full1": True, "reps": reps}
    return {"cap": 5, "n": 2, "pieces": 3, "full1": True, "reps": ["rec"]}


def numpy_alphabet(spec, level, cap):
    """Records restricted to what a numpy column can hold: c in str menu, s numeric. With a cap the menus are
    truncated by priority (lowest edge, NaN, below range, ...) as everywhere else."""
    recs = A.records(spec, level, cap=None)
    if level == "full" and "s" in S.fields(spec):
        # an infinite selection weight (differential oracle only: the reference model has no infinite weights)
        recs = recs + [dict(r, s=float("inf")) for r in recs if r["s"] is True]
    seen, out = set(), []
    for r in recs:
        r = dict(r)
        if r["c"] is None or isinstance(r["c"], (bool, float)):
            continue
        if isinstance(r["s"], float) and (r["s"] != r["s"] or r["s"] < 0) and level == "core":
            continue
        k = repr(A.show(norm_rec(r)))
        if k not in seen:
            seen.add(k)
            out.append(r)
    if cap is not None and len(out) > cap:
        # a "diagonal" through the (priority-ordered) menus of the fields the tree reads: the i-th record takes the
        # i-th value (cyclically) of every field, so the top classes of every field occur and fields vary together
        fs = sorted(S.fields(spec))
        menus = {}
        for f in fs:
            vals, seen_v = [], set()
            for r in out:
                kv = repr(A.show(r[f]))
                if kv not in seen_v:
                    seen_v.add(kv)
                    vals.append(r[f])
            menus[f] = vals
        picked, seen_p = [], set()
        i = 0
        while len(picked) < cap and i < 4 * cap:
            r = dict(out[0])
            for j, f in enumerate(fs):
                r[f] = menus[f][(i + (j * (i // max(1, len(menus[fs[0]])))) ) % len(menus[f])]
            k = repr(A.show(norm_rec(r)))
            if k not in seen_p:
                seen_p.add(k)
                picked.append(r)
            i += 1
        out = picked
    return out


_calls = {"histogram": 0, "unique": 0}


def _wrap_numpy():
    if getattr(np, "_hgmc_wrapped", False):
        return
    oh, ou = np.histogram, np.unique

    def h(*a, **k):
        _calls["histogram"] += 1
        return oh(*a, **k)

    def u(*a, **k):
        _calls["unique"] += 1
        return ou(*a, **k)

    np.histogram, np.unique = h, u
    np._hgmc_wrapped = True


def _tree(task):
    spec, tier = task
    _wrap_numpy()
    _calls["histogram"] = _calls["unique"] = 0
    acc = FW.Acc()
    acc.n("trees")
    P = plan(spec, tier)
    recs = numpy_alphabet(spec, "core", P["cap"])
    # (1) every single-row batch over the full alphabet, every weight mode, called twice (state carry-over)
    if P["full1"]:
        # quick tier: the (priority-ordered) full alphabet is cut at 128 records for the large shapes of DX
        full = numpy_alphabet(spec, "full", None if tier != "quick" else 128)
        for r in full:
            for m in modes_for(1, tier, (0.0, 1.0, 0.5, 2.0)):
                acc.add(check_case(spec, [r], m, ()))
                acc.n("cases")
                acc.n("transitions", 2)
                acc.distinct("cases", FW.hkey((S.key(spec), repr(A.show(r)), repr(m))))
        for r1 in full:
            for r2 in recs:
                acc.add(check_case(spec, [r1, r2], ("none",), (1,)))
                acc.add(check_case(spec, [r2, r1], ("array", (0.5, 1.0)), (1,)))
                acc.n("cases", 2)
                acc.n("transitions", 8)
    # (1b) sparse bin indexes at the edge of the 64-bit range: the vectorised path saturates there through masks, the
    # scalar path through Python integers; a row whose index is exactly +-2**63 (or the float next to it) must land in
    # the same bin on both paths (differential oracle only: both sides are the real library)
    for _, _, node in S.node_ids(spec):
        if node["t"] != "SparselyBin":
            continue
        bw, origin = node["p"]
        edge = []
        for k in (2.0 ** 63, -(2.0 ** 63), 2.0 ** 62):
            x = origin + bw * k
            edge += [x, math.nextafter(x, math.inf), math.nextafter(x, -math.inf)]
        for x in edge:
            r = dict(recs[0], **{node["q"]: x})
            for m in (("none",), ("scalar", 2.0), ("array", (0.5,))):
                acc.add(check_case(spec, [r], m, ()))
                acc.n("cases")
                acc.n("saturation_edge_cases")
                acc.n("transitions", 2)
            acc.add(check_case(spec, [r, recs[0]], ("none",), (1,)))
            acc.n("cases")
            acc.n("transitions", 4)
    # (2) every batch of length 0..n over the capped alphabet x weight mode x split
    for rep in P["reps"]:
        for n in range(0, (P["n"] if rep == "rec" else min(P["n"], 2)) + 1):
            ms = modes_for(n, tier)
            cs = cuts_for(n, P["pieces"])
            for combo in itertools.product(range(len(recs)), repeat=n):
                batch = [recs[i] for i in combo]
                for m in ms:
                    for c in cs:
                        acc.add(check_case(spec, batch, m, c, rep))
                        acc.n("cases")
                        acc.n("transitions", 2 * (len(c) + 1))
                        if rep == "rec":
                            acc.distinct("cases", FW.hkey((S.key(spec), combo, repr(m), c)))
    acc.n("np_histogram_calls", _calls["histogram"])
    acc.n("np_unique_calls", _calls["unique"])
    if len(recs) > 1:
        acc.sample({"tree": S.sid(spec), "batch": [core.compact(recs[0], spec), core.compact(recs[-1], spec)],
                    "weights": [0.5, 1.0], "cut": [1], "oracle": "twin tree filled row by row"})
    return acc.freeze_sets()


def trees(tier):
    t = [s for s in S.D1() if quantity_bearing(s)] + [s for s in S.D2() if quantity_bearing(s)]
    t += S.D3_quick() + S.D3flow()
    if tier != "quick":
        t += S.D3()
    t += [x for x in S.DX() if quantity_bearing(x)] + S.NDX()
    seen, out = set(), []
    for s in t:
        k = S.key(s)
        if k not in seen:
            seen.add(k)
            out.append(s)
    return out


def run(tier, seed):
    ts = trees(tier)
    accs = FW.pmap(_tree, [(t, tier) for t in ts], seed)
    acc = FW.Acc()
    for a in accs:
        acc.merge(a)
    cov = {
        "states": len(acc.sets.get("cases", ())),
        "transitions": acc.c.get("transitions", 0),
        "traces_validated_against_impl": acc.c.get("cases", 0),
        "evaluations": acc.c.get("cases", 0),
        "distinct_nontrivial": len(acc.sets.get("cases", ())),
        "rule": "per tree: (1) every 1-row batch over the full alphabet x every weight mode, and every 2-row batch "
                "(full x capped) cut into two calls; (1b) for every SparselyBin node, rows whose bin index is exactly +-2**63, 2**62 or a "
                "neighbouring float, x 3 weight modes; (2) every batch of 0..n rows over the capped alphabet x {no weights, "
                "scalar 1/2.0/0.5/0.0, every weight array over {0,1,0.5}} x every cut into <=pieces successive fill.numpy "
                "calls (empty pieces included); oracle = twin tree filled row by row; distinct = (tree,batch,mode,cut)",
        "exhaustive": True,
        "bounds": {"trees": len(ts), "plan_depth2": plan(S.D2()[0], tier), "plan_depth3": plan(S.D3_quick()[0], tier)},
    }
    assumptions = [
        "differential oracle: the row-wise fill path (checked against the reference model by C02) is the specification",
        "batches are numpy record arrays (pandas DataFrames additionally in the thorough tier); category columns are str",
        "negative/NaN weights and |x| beyond 2^63 bin widths are outside the property's claim and not generated",
        "sparse bins/categories holding zero weight are ignored in the comparison, as the statement allows",
    ]
    return acc, cov, assumptions


def replay(driver, args):
    mode = tuple([args["mode"][0]] + [A.unshow(m) for m in args["mode"][1:]])
    return check_case(args["spec"], [A.unshow(r) for r in args["recs"]], mode, tuple(args["cuts"]), args.get("rep", "rec"))
