"""C14 — DataFrame filling is a homomorphism and agrees with direct filling. DESIGN §3 C14."""
import contextlib
import io
import itertools
import logging
import os

import numpy as np
import pandas as pd

from .. import alphabet as A
from .. import canon as C
from .. import core
from .. import framework as FW

PROP = "C14"

# row menu: covers NaN, negative, integer-valued floats on bin edges, both booleans, four distinct timestamps
ROWS = [
    {"x": 0.5, "i": 1, "b": True, "t": "2020-01-01"},
    {"x": 1.5, "i": 2, "b": False, "t": "2020-02-15"},
    {"x": float("nan"), "i": 2, "b": True, "t": "2020-02-16"},
    {"x": -2.0, "i": 7, "b": True, "t": "2021-01-01"},
    {"x": 1.0, "i": 0, "b": False, "t": "2010-01-04"},
    {"x": 3.0, "i": -3, "b": True, "t": "2020-01-31 12:00:00"},
]
# a large-integer column (identifiers, nanosecond counters): three of them no longer fit an int64 sum
for _k, _r in enumerate(ROWS):
    _r["L"] = 4 * 10 ** 18 + 4096 * _k  # (multiples of 4096: every sum of up to four of them is a float, in any order)

FEATURES = ["x", "i", "b", "t", "x:i", "i:b", "b:x", "t:x", "x:b", "i:x", "t:x:b", "x:i:b", "t:i:x", "t:i", "b:i"]

SPEC_SETS = {
    "A": {"x": {"num": 4, "low": -2.0, "high": 2.0}, "i": {"edges": [0, 2, 5]}, "t": {"binWidth": 30 * 86400e9, "origin": 1.5778368e18},
          "x:i": [{"centers": [-1.0, 0.0, 1.0, 2.0]}, {"thresholds": [0, 2]}],
          "i:x": [{"binWidth": 2, "origin": 0.5}, {"num": 2, "low": 0.0, "high": 2.0}],
          "t:x:b": [{"binWidth": 365 * 86400e9, "origin": 0.0}, {"edges": [0.0, 1.0]}, {}],
          # a sparse / categorical first axis over bins that hold plain Counts (a key that first shows up in a later chunk)
          "b:i": [{}, {"thresholds": [0, 2]}], "t:i": [{"binWidth": 30 * 86400e9, "origin": 0.0}, {"centers": [0.0, 2.0, 6.0]}]},
    "B": {"b:x": [{}, {"average": True}], "i:x": [{"edges": [0, 2]}, {"sum": True}], "x:i": [{"num": 2, "low": 0.0, "high": 2.0}, {"max": True}],
          "x": {"deviate": True}, "i": {"bag": True}, "t:x": [{"binWidth": 30 * 86400e9, "origin": 0.0}, {"min": True}],
          "x:b": [{"fraction": True}, {}], "i:b": [{"cut": True}, {}], "x:i:b": [{"centers": [0.0, 1.0]}, {"fraction": True}, {}]},
}


def quiet(fn, *a, **k):
    with contextlib.redirect_stderr(io.StringIO()), contextlib.redirect_stdout(io.StringIO()):
        return fn(*a, **k)


def frame(rows):
    return pd.DataFrame({"x": np.array([r["x"] for r in rows], dtype="float64"),
                         "i": np.array([r["i"] for r in rows], dtype="int64"),
                         "b": np.array([r["b"] for r in rows], dtype=bool),
                         "t": pd.to_datetime([pd.Timestamp(r["t"]) for r in rows]),
                         "L": np.array([r["L"] for r in rows], dtype="int64")})


# ------------------------------------------------------------------ independent builder from the returned specs
UNIT = {"binWidth": 1.0, "origin": 0.0}
UNIT_T = {"binWidth": float(pd.Timedelta(days=30).value), "origin": float(pd.Timestamp("2010-01-04").value)}


def spec_for(bin_specs, var_dtype, cols, idx):
    n = ":".join(cols)
    is_ts = np.issubdtype(np.dtype(var_dtype[cols[idx]]), np.datetime64)
    default = UNIT_T if is_ts else UNIT
    if n in bin_specs and len(cols) > 1 and len(cols) == len(bin_specs[n]):
        r = bin_specs[n][idx]
        if not r:
            r = bin_specs.get(cols[idx], default)
        return r
    return bin_specs.get(cols[idx], default)


def direct_tree(bin_specs, var_dtype, cols):
    """The primitive tree the documentation promises for this feature (spec kind -> primitive)."""
    import histogrammar as hg

    h = hg.Count()
    for col in reversed(cols):
        q = eval('lambda d: d["%s"]' % col)
        dt = np.dtype(var_dtype[col])
        s = spec_for(bin_specs, var_dtype, cols, cols.index(col))
        if np.issubdtype(dt, np.bool_):
            h = hg.Categorize(q, h)
        elif "binWidth" in s or "bin_width" in s:
            h = hg.SparselyBin(s.get("binWidth", s.get("bin_width")), q, h, origin=s.get("origin", s.get("bin_offset", 0.0)))
        elif "num" in s:
            h = hg.Bin(int(s["num"]), s["low"], s["high"], q, h)
        elif "edges" in s:
            h = hg.IrregularlyBin(list(s["edges"]), q, h)
        elif "max" in s:
            h = hg.Maximize(q)
        elif "min" in s:
            h = hg.Minimize(q)
        elif "average" in s:
            h = hg.Average(q)
        elif "deviate" in s:
            h = hg.Deviate(q)
        elif "sum" in s:
            h = hg.Sum(q)
        elif "centers" in s:
            h = hg.CentrallyBin(list(s["centers"]), q, h)
        elif "thresholds" in s:
            h = hg.Stack(list(s["thresholds"]), q, h)
        elif "bag" in s:
            h = hg.Bag(q, "N")
        elif "fraction" in s:
            h = hg.Fraction(q, h)
        elif "cut" in s:
            h = hg.Select(q, h)
        else:
            raise ValueError("unknown spec %r" % (s,))
    return h


def row_values(rows):
    """The columns as a numpy record array (timestamps as integer nanoseconds), for fill.numpy on the direct tree.
    (Row-wise filling would disagree with the vectorised path on data that sit exactly on a non-dyadic auto-binned edge;
    C03 relates the two paths, C14 only relates make_histograms to the primitive API.)"""
    arr = np.zeros(len(rows), dtype=[("x", "f8"), ("i", "i8"), ("b", "?"), ("t", "i8"), ("L", "f8")])
    for k, r in enumerate(rows):
        arr[k] = (float(r["x"]), int(r["i"]), bool(r["b"]), int(pd.Timestamp(r["t"]).value), float(r["L"]))
    return arr.view(np.recarray)


def rowwise_exact(bin_specs, var_dtype, cols, rows):
    """True if for every numeric Bin/SparselyBin axis of this feature the float index arithmetic is exact for every
    row, so that row-wise filling is a bit-exact specification of the content."""
    import math

    for idx, col in enumerate(cols):
        dt = np.dtype(var_dtype[col])
        if np.issubdtype(dt, np.bool_):
            continue
        s = spec_for(bin_specs, var_dtype, cols, idx)
        for r in rows:
            v = float(pd.Timestamp(r["t"]).value) if col == "t" else float(r[col])
            if not math.isfinite(v):
                continue
            if "binWidth" in s or "bin_width" in s:
                if not A.exact_sparse_index(float(s.get("binWidth", s.get("bin_width"))),
                                            float(s.get("origin", s.get("bin_offset", 0.0))), v)[1]:
                    return False
            elif "num" in s:
                lo, hi = float(s["low"]), float(s["high"])
                if lo <= v < hi and not A.exact_bin_index(int(s["num"]), lo, hi, v)[1]:
                    return False
    return True


def row_dicts(rows):
    return [{"x": float(r["x"]), "i": float(r["i"]), "b": bool(r["b"]), "t": float(pd.Timestamp(r["t"]).value),
             "L": float(r["L"])} for r in rows]


def set_partitions(n, maxblocks):
    """All partitions of range(n) into 1..maxblocks non-empty blocks."""
    def rec(i, blocks):
        if i == n:
            yield [list(b) for b in blocks]
            return
        for b in blocks:
            b.append(i)
            yield from rec(i + 1, blocks)
            b.pop()
        if len(blocks) < maxblocks:
            blocks.append([i])
            yield from rec(i + 1, blocks)
            blocks.pop()

    yield from rec(0, [])


def check_frame(rows_idx, config, maxblocks):
    """config = (name, kwargs for make_histograms). Returns (violations, ncalls)."""
    from histogrammar.dfinterface.make_histograms import make_histograms

    rows = [ROWS[i] for i in rows_idx]
    name, kw = config
    if all(r["x"] != r["x"] for r in rows) and kw.get("binning") == "auto":
        return [], 0  # auto-binning derives the range from the data: undefined for an all-NaN column (stated bound)
    args = {"rows": list(rows_idx), "config": name, "maxblocks": maxblocks}
    out = []
    ncalls = 0
    df = frame(rows)
    df0 = df.copy(deep=True)
    try:
        hists, feats, specs, ta, vdt = quiet(make_histograms, df, ret_specs=True, **kw)
        ncalls += 1
    except Exception as e:
        out.append(core.v_exc(PROP, "frame", "make_histograms(%s) raised" % name.split("/")[0], e, args))
        if "features" not in kw:
            return out, ncalls
        # isolate the failing feature(s) and carry on with the others
        good = []
        for f in kw["features"]:
            try:
                quiet(make_histograms, df, **dict(kw, features=[f]))
                good.append(f)
            except Exception:
                pass
            ncalls += 1
        if not good:
            return out, ncalls
        kw = dict(kw, features=good)
        hists, feats, specs, ta, vdt = quiet(make_histograms, df, ret_specs=True, **kw)
    if not df.equals(df0) or list(df.dtypes) != list(df0.dtypes):
        out.append(FW.violation(PROP, "frame", "make_histograms(%s)" % name.split("/")[0], "input-dataframe-modified", args, {}))
    vals = row_values(rows)
    docs = {}
    # what the caller asked for is the specification; the returned specs only complete it
    asked = dict(specs)
    asked.update(kw.get("bin_specs") or {})
    for f, h in hists.items():
        fa = dict(args, feature=f)
        docs[f] = h.toJson()
        if h.entries != len(rows):
            out.append(FW.violation(PROP, "frame", "entries of feature kind %s" % kind_of(f), "entries!=rows", fa,
                                    {"entries": h.entries, "rows": len(rows)}))
            continue
        try:
            d = direct_tree(asked, vdt, f.split(":"))
            if rowwise_exact(asked, vdt, f.split(":"), rows):
                # bit-exact specification: the documented tree filled row by row (path validated by C02)
                for v in row_dicts(rows):
                    d.fill(v)
                oracle = "row-wise"
            else:
                # a datum sits where float index arithmetic rounds (auto-binned non-dyadic edges): only the vectorised
                # primitive path is a fair comparison there
                d.fill.numpy(vals)
                oracle = "fill.numpy"
            df_ = C.diff(docs[f], d.toJson(), prune_zero=True, drop_names=True)
        except Exception as e:
            out.append(core.v_exc(PROP, "frame", "direct filling of feature kind %s raised" % kind_of(f), e, fa))
            continue
        if df_:
            out.append(core.v_diff(PROP, "frame", "feature %s (%s) differs from filling the primitive tree directly" % (
                kind_of(f), name.split("/")[0]), df_, docs[f], dict(fa, oracle=oracle)))
    if [v for v in out if "raised" not in v["sig"]]:
        return out, ncalls
    # homomorphism over every partition of the rows into chunks, re-using the returned specs
    for part in set_partitions(len(rows), maxblocks):
        if len(part) == 1:
            continue
        pa = dict(args, partition=part)
        try:
            total = None
            for block in part:
                chunk = df.iloc[block]
                hs = quiet(make_histograms, chunk, features=feats, bin_specs=specs, var_dtype=vdt, time_axis=ta,
                           binning=kw.get("binning", "auto"))
                ncalls += 1
                total = hs if total is None else {k: total[k] + hs[k] for k in total}
            if not df.equals(df0):
                out.append(FW.violation(PROP, "chunks", "make_histograms on a chunk", "input-dataframe-modified", pa, {}))
                return out, ncalls
            for f in docs:
                d = C.diff(total[f].toJson(), docs[f], prune_zero=True)
                if d:
                    out.append(core.v_diff(PROP, "chunks", "sum of chunk histograms differs from the whole (%s, %s)" % (
                        kind_of(f), name.split("/")[0]), d, total[f].toJson(), dict(pa, feature=f)))
                    return out, ncalls
        except Exception as e:
            out.append(core.v_exc(PROP, "chunks", "chunked make_histograms (%s) raised" % name.split("/")[0], e, pa))
            return out, ncalls
    return out, ncalls


def kind_of(feature):
    cols = feature.split(":")
    return "%dD[%s]" % (len(cols), ":".join(cols))


def configs(tier):
    cs = [("auto", {"features": FEATURES, "binning": "auto"}),
          ("unit", {"features": FEATURES, "binning": "unit"}),
          ("explicit-A", {"features": FEATURES, "binning": "auto", "bin_specs": SPEC_SETS["A"]}),
          ("explicit-B", {"features": ["x", "i", "b:x", "i:x", "x:i", "t:x", "x:b", "i:b", "x:i:b"], "binning": "unit",
                          "bin_specs": SPEC_SETS["B"]}),
          ("time_axis/auto", {"time_axis": "t", "binning": "auto"}),
          ("time_axis/unit", {"time_axis": "t", "binning": "unit", "time_width": "1w", "time_offset": "2020-01-06"}),
          ("time_axis/features", {"time_axis": "t", "features": ["t:x", "t:b", "t:i:x"], "binning": "auto",
                                  "bin_specs": {"x": {"num": 2, "low": 0.0, "high": 2.0}}})]
    T0, T1, T2 = (float(pd.Timestamp(x).value) for x in ("2020-01-01", "2020-02-01", "2021-01-01"))
    cs += [
        # leaf aggregators over large integers and timestamps (their sums do not fit an int64)
        ("explicit-C", {"features": ["L", "t", "b:L", "i:t", "x:L"], "binning": "unit",
                        "bin_specs": {"L": {"sum": True}, "t": {"average": True}, "b:L": [{}, {"sum": True}],
                                      "i:t": [{"edges": [0, 2]}, {"sum": True}],
                                      "x:L": [{"num": 2, "low": 0.0, "high": 2.0}, {"max": True}]}}),
        # leaf aggregators under axes that weight the rows (cut / fraction: the weight is the column's value) and under
        # sparse / categorical axes (a key that first shows up in a later chunk is adopted by the merge)
        ("explicit-D", {"features": ["i:x", "x:i", "b:i", "t:i", "i:b:x"], "binning": "unit",
                        "bin_specs": {"i:x": [{"cut": True}, {"deviate": True}], "x:i": [{"fraction": True}, {"average": True}],
                                      "b:i": [{}, {"bag": True}], "t:i": [{"binWidth": 30 * 86400e9, "origin": 0.0}, {"bag": True}],
                                      "i:b:x": [{"cut": True}, {}, {"deviate": True}]}}),
        # a time axis whose binning is given explicitly, in every spelling the filler accepts
        ("time_axis/edges", {"time_axis": "t", "features": ["t:x", "t:b"], "binning": "unit",
                             "bin_specs": {"t": {"edges": [T0, T1, T2]}}}),
        ("time_axis/num", {"time_axis": "t", "features": ["t:x", "t:i:b"], "binning": "unit",
                           "bin_specs": {"t": {"num": 4, "low": T0, "high": T2}}}),
        ("time_axis/bin_width", {"time_axis": "t", "features": ["t:x"], "binning": "unit",
                                 "bin_specs": {"t": {"bin_width": float(pd.Timedelta(days=7).value), "bin_offset": T0}}}),
        ("time_axis/centers", {"time_axis": "t", "features": ["t:b"], "binning": "auto",
                               "bin_specs": {"t": {"centers": [T0, T1, T2]}}}),
    ]
    return cs


def _frame_task(task):
    rows_idx, tier = task
    logging.disable(logging.CRITICAL)
    acc = FW.Acc()
    maxblocks = 2 if tier == "quick" else 3
    for cfg in configs(tier):
        vs, n = check_frame(rows_idx, cfg, maxblocks)
        acc.add(vs)
        acc.n("frames_x_configs")
        acc.n("make_histograms_calls", n)
        acc.distinct("cases", FW.hkey((rows_idx, cfg[0])))
    return acc.freeze_sets()


def frames(tier):
    r = 3 if tier == "quick" else 4
    out = []
    for n in range(1, r + 1):
        out += list(itertools.combinations_with_replacement(range(len(ROWS)), n))
    if tier != "quick":
        # order matters for chunk indexes: add every ordering of the 3-row frames over the first four rows
        out += [p for p in itertools.permutations(range(4), 3)]
    return list(dict.fromkeys(out))


def run(tier, seed):
    os.environ["TQDM_DISABLE"] = "1"
    fr = frames(tier)
    accs = FW.pmap(_frame_task, [(f, tier) for f in fr], seed)
    acc = FW.Acc()
    for a in accs:
        acc.merge(a)
    acc.samples = [{"rows": [ROWS[0], ROWS[2], ROWS[3]], "config": "auto", "features": FEATURES,
                    "partition": [[0, 2], [1]]},
                   {"config": "explicit-B", "bin_specs": {k: v for k, v in list(SPEC_SETS["B"].items())[:3]}}]
    cov = {
        "evaluations": acc.c.get("make_histograms_calls", 0),
        "distinct_nontrivial": len(acc.sets.get("cases", ())),
        "rule": "dataframes = every multiset of 1..%d rows over a 6-row menu (float incl. NaN, int, bool, timestamp columns)"
                " x 7 configurations {auto, unit, explicit bin_specs of every supported kind (2 sets), time_axis with default "
                "features (auto / unit with custom width) and with explicit features} over 13 features of 1-3 dimensions; per "
                "feature: entries == rows and content == the documented primitive tree filled row by row from the returned "
                "specs; then every partition of the rows into <=%d non-empty chunks (non-contiguous, original index kept): "
                "sum of make_histograms(chunk, returned specs) == whole; input frame unchanged; distinct = (frame, config)"
                % ((3, 2) if tier == "quick" else (4, 3)),
        "exhaustive": True,
        "bounds": {"frames": len(fr), "features": len(FEATURES), "configs": len(configs(tier))},
    }
    assumptions = ["string columns are outside the claim (pandas 3 string dtype breaks the filler in this environment)",
                   "the expected tree is built by an independent re-statement of the documented spec -> primitive mapping and "
                   "filled row-wise (the row-wise path is checked against the reference model by C02)"]
    return acc, cov, assumptions


def replay(driver, args):
    logging.disable(logging.CRITICAL)
    os.environ["TQDM_DISABLE"] = "1"
    cfg = [c for c in configs("thorough") if c[0] == args["config"]][0]
    vs, _ = check_frame(tuple(args["rows"]), cfg, args.get("maxblocks", 3))
    return vs
