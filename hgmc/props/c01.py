"""C01 — merge is a commutative-monoid homomorphism; partition-invariant aggregation. DESIGN §3 C01."""
import itertools

from .. import alphabet as A
from .. import canon as C
from .. import core
from .. import framework as FW
from .. import refmodel as R
from .. import spec as S

PROP = "C01"


class Pool:
    """Real objects per reachable state, reused across pure operations and verified untouched after each use."""

    def __init__(self, spec, states):
        self.spec = spec
        self.hist = list(states.values())
        self.objs = [core.mk(spec, h) for h in self.hist]
        self.docs = [o.toJson() for o in self.objs]

    def verify(self, i, acc, args, op):
        d = C.diff(self.objs[i].toJson(), self.docs[i], tol_keys=())
        if d:
            acc.add(core.v_diff(PROP, "closure", "operand changed by %s" % op, d, self.objs[i].toJson(), args))
            self.objs[i] = core.mk(self.spec, self.hist[i])


def pair_args(spec, ha, hb, hc=None):
    a = {"spec": spec, "ha": core.show_evs(ha), "hb": core.show_evs(hb)}
    if hc is not None:
        a["hc"] = core.show_evs(hc)
    return a


def check_pair(spec, a, b, ha, hb):
    """Commutativity + homomorphism for one pair of live objects."""
    args = pair_args(spec, ha, hb)
    out = []
    try:
        ab = a + b
        ba = b + a
    except Exception as e:
        return [core.v_exc(PROP, "closure", "a+b raised", e, args)]
    dab, dba = ab.toJson(), ba.toJson()
    d = C.diff(dab, dba)
    if d:
        out.append(core.v_diff(PROP, "closure", "a+b differs from b+a", d, dab, args))
    d = C.diff(dab, R.ref_doc(spec, ha + hb))
    if d:
        out.append(core.v_diff(PROP, "closure", "a+b differs from filling both histories", d, dab, args))
    return out


def check_identity(spec, a, ha):
    args = pair_args(spec, ha, [])
    out = []
    try:
        z = a.zero()
        zdoc = z.toJson()
        d = C.diff(zdoc, R.ref_doc(spec, []))
        if d:
            out.append(core.v_diff(PROP, "identity", "zero() is not the empty aggregator", d, zdoc, args))
        adoc = a.toJson()
        for name, r in (("a+zero", a + z), ("zero+a", z + a)):
            d = C.diff(r.toJson(), adoc)
            if d:
                out.append(core.v_diff(PROP, "identity", name + " differs from a", d, r.toJson(), args))
        zz = z + z
        d = C.diff(zz.toJson(), zdoc)
        if d:
            out.append(core.v_diff(PROP, "identity", "zero+zero differs from zero", d, zz.toJson(), args))
        d = C.diff(z.toJson(), zdoc, tol_keys=())
        if d:
            out.append(core.v_diff(PROP, "identity", "zero changed by being added", d, z.toJson(), args))
    except Exception as e:
        out.append(core.v_exc(PROP, "identity", "zero()/+ raised", e, args))
    return out


def check_triple(spec, a, b, c, ha, hb, hc):
    args = pair_args(spec, ha, hb, hc)
    try:
        l = (a + b) + c
        r = a + (b + c)
    except Exception as e:
        return [core.v_exc(PROP, "assoc", "(a+b)+c raised", e, args)]
    dl = l.toJson()
    d = C.diff(dl, r.toJson())
    if d:
        return [core.v_diff(PROP, "assoc", "(a+b)+c differs from a+(b+c)", d, dl, args)]
    d = C.diff(dl, R.ref_doc(spec, ha + hb + hc))
    if d:
        return [core.v_diff(PROP, "assoc", "(a+b)+c differs from filling all three histories", d, dl, args)]
    return []


def check_build(spec, ha, hb, hc):
    """Stack.build / Fraction.build assemble containers from separately aggregated pieces: their content is defined by +."""
    import histogrammar as hg

    args = pair_args(spec, ha, hb, hc)
    out = []
    try:
        a, b, c = core.mk(spec, ha), core.mk(spec, hb), core.mk(spec, hc)
        docs = [x.toJson() for x in (a, b, c)]
        st = hg.Stack.build(a, b, c)
        exp_bins = [R.ref_doc(spec, ha + hb + hc)["data"], R.ref_doc(spec, hb + hc)["data"], R.ref_doc(spec, hc)["data"]]
        got = st.toJson()["data"]
        got_bins = [e["data"] for e in got["bins"]]
        # bins are serialised without their own name
        d = C.diff(got_bins, exp_bins, drop_names=True)
        if d:
            out.append(core.v_diff(PROP, "build", "Stack.build bins differ from the cumulative sums", d,
                                   {"type": "Stack", "data": got}, args))
        tot = sum(C._num(x["data"]["entries"] if isinstance(x["data"], dict) else x["data"]) for x in docs)
        if C._num(got["entries"]) != tot:
            out.append(FW.violation(PROP, "build", "Stack.build entries", "entries", args, {"got": got["entries"], "expected": tot}))
        # two Stacks assembled on different streams are partial results themselves: they merge like any others
        import pickle

        twice = [R.ref_doc(spec, 2 * (ha + hb + hc))["data"], R.ref_doc(spec, 2 * (hb + hc))["data"],
                 R.ref_doc(spec, 2 * hc)["data"]]
        others = [("a Stack built from equal pieces", hg.Stack.build(core.mk(spec, ha), core.mk(spec, hb), core.mk(spec, hc))),
                  ("its pickle clone", pickle.loads(pickle.dumps(st))), ("its JSON reload", hg.Factory.fromJson(st.toJson()))]
        for nm, st2 in others:
            try:
                for what, m in (("st+st2", st + st2), ("st2+st", st2 + st)):
                    d = C.diff([e["data"] for e in m.toJson()["data"]["bins"]], twice, drop_names=True)
                    if d:
                        out.append(core.v_diff(PROP, "build", "%s differs from the doubled cumulative sums (st2 = %s)" % (what, nm),
                                               d, m.toJson(), args))
            except Exception as e:
                out.append(core.v_exc(PROP, "build", "merging a Stack.build result with %s raised" % nm, e, args))
        fr = hg.Fraction.build(a, b)
        gf = fr.toJson()["data"]
        d = C.diff([gf["numerator"], gf["denominator"]], [R.ref_doc(spec, ha)["data"], R.ref_doc(spec, hb)["data"]], drop_names=True)
        if d:
            out.append(core.v_diff(PROP, "build", "Fraction.build numerator/denominator differ from the pieces", d,
                                   {"type": "Fraction", "data": gf}, args))
        for x, d0 in zip((a, b, c), docs):
            d = C.diff(x.toJson(), d0, tol_keys=())
            if d:
                out.append(core.v_diff(PROP, "build", "piece changed by Stack.build/Fraction.build", d, x.toJson(), args))
                break
    except Exception as e:
        out.append(core.v_exc(PROP, "build", "Stack.build/Fraction.build raised", e, args))
    return out


def reorder_spec(spec):
    """The same tree with the members of every Label/UntypedLabel named in the opposite order (None if nothing to reorder)."""
    import copy

    changed = [False]

    def walk(n):
        if isinstance(n, dict):
            n = {k: walk(v) for k, v in n.items()}
            if n.get("t") in ("Label", "UntypedLabel") and isinstance(n.get("ch"), dict) and len(n["ch"]) > 1:
                n["ch"] = dict(reversed(list(n["ch"].items())))
                changed[0] = True
            return n
        if isinstance(n, list):
            return [walk(x) for x in n]
        return n

    out = walk(copy.deepcopy(spec))
    return out if changed[0] else None


def reorder_doc(doc, how):
    """The same JSON document with the members of every object in another order (member order carries no meaning)."""
    if isinstance(doc, dict):
        items = [(k, reorder_doc(v, how)) for k, v in doc.items()]
        items = list(reversed(items)) if how == "reversed" else sorted(items, key=lambda kv: kv[0])
        return dict(items)
    if isinstance(doc, list):
        return [reorder_doc(x, how) for x in doc]
    return doc


def check_equivalent_partials(spec, ha, hb):
    """A partial that reached the reducer by another route (a tree whose labelled members were named in another order,
    a JSON document whose object members come in another order, a pickle) must merge exactly like the original."""
    import pickle

    import histogrammar as hg

    args = pair_args(spec, ha, hb)
    out = []
    exp = R.ref_doc(spec, ha + hb)
    try:
        a = core.mk(spec, ha)
        b = core.mk(spec, hb)
        bdoc = b.toJson()
        variants = []
        rs = reorder_spec(spec)
        if rs is not None:
            variants.append(("tree with members named in the opposite order", core.mk(rs, hb)))
        variants.append(("JSON reload with object members reversed", hg.Factory.fromJson(reorder_doc(bdoc, "reversed"))))
        variants.append(("JSON reload with object members sorted", hg.Factory.fromJson(reorder_doc(bdoc, "sorted"))))
        variants.append(("pickle clone", pickle.loads(pickle.dumps(b))))
    except Exception as e:
        return [core.v_exc(PROP, "routes", "building an equivalent partial raised", e, args)]
    adoc = a.toJson()
    for nm, bv in variants:
        a2 = dict(args, route=nm)
        try:
            vdoc = bv.toJson()
            for what, r in (("a+b'", a + bv), ("b'+a", bv + a)):
                d = C.diff(r.toJson(), exp)
                if d:
                    out.append(core.v_diff(PROP, "routes", "%s differs from filling both histories (b' = %s)" % (what, nm), d,
                                           r.toJson(), a2))
            x = a.copy()
            x += bv
            d = C.diff(x.toJson(), exp)
            if d:
                out.append(core.v_diff(PROP, "routes", "a+=b' differs from filling both histories (b' = %s)" % nm, d, x.toJson(), a2))
            if not type(bv).__name__.startswith("Immutable"):
                y = bv.copy()
                y += a
                d = C.diff(y.toJson(), exp)
                if d:
                    out.append(core.v_diff(PROP, "routes", "b'+=a differs from filling both histories (b' = %s)" % nm, d, y.toJson(), a2))
            for o, d0 in ((a, adoc), (bv, vdoc)):
                d = C.diff(o.toJson(), d0, tol_keys=())
                if d:
                    out.append(core.v_diff(PROP, "routes", "operand changed by a merge (b' = %s)" % nm, d, o.toJson(), a2))
        except Exception as e:
            out.append(core.v_exc(PROP, "routes", "merging with an equivalent partial raised (b' = %s)" % nm, e, a2))
    return out


def schedules(k):
    """All reduction schedules of k partials: permutations x parenthesisations, as nested tuples of indexes."""
    def trees(seq):
        if len(seq) == 1:
            yield seq[0]
            return
        for i in range(1, len(seq)):
            for l in trees(seq[:i]):
                for r in trees(seq[i:]):
                    yield (l, r)

    for perm in itertools.permutations(range(k)):
        yield from trees(perm)


def check_partition(spec, stream, assign, k):
    """Fill each chunk into zero() with defs.increment, reduce with defs.combine under every schedule."""
    from histogrammar import defs

    args = {"spec": spec, "stream": core.show_evs(stream), "assign": list(assign), "k": k}
    out = []
    exp = R.ref_doc(spec, stream)
    try:
        proto = S.build(spec)
        parts = []
        for c in range(k):
            h = proto.zero()
            for (r, w), ci in zip(stream, assign):
                if ci == c:
                    # defs.increment(container, datum) fills with weight 1; weighted data use fill directly
                    if w == 1.0:
                        h = defs.increment(h, A.fresh(r))
                    else:
                        h.fill(A.fresh(r), w)
            parts.append(h)
        docs = [p.toJson() for p in parts]

        def red(t):
            if isinstance(t, int):
                return parts[t]
            return defs.combine(red(t[0]), red(t[1]))

        for sch in schedules(k):
            res = red(sch)
            d = C.diff(res.toJson(), exp)
            if d:
                a2 = dict(args, schedule=repr(sch))
                out.append(core.v_diff(PROP, "partition", "reduced chunks differ from single fill", d, res.toJson(), a2))
                break
        for p, d0 in zip(parts, docs):
            d = C.diff(p.toJson(), d0, tol_keys=())
            if d:
                out.append(core.v_diff(PROP, "partition", "partial changed by reduction", d, p.toJson(), args))
                break
        # a pure merge followed by in-place merges into its result: the partials must stay what they were
        if k >= 2:
            accu = defs.combine(parts[0], parts[1])
            for i in list(range(2, k)) + [0]:
                accu += parts[i]
            d = C.diff(accu.toJson(), R.ref_doc(spec, list(stream) + [e for e, ci in zip(stream, assign) if ci == 0]))
            if d:
                out.append(core.v_diff(PROP, "partition", "(p0+p1) += ... differs from the reference", d, accu.toJson(), args))
            for p, d0 in zip(parts, docs):
                d = C.diff(p.toJson(), d0, tol_keys=())
                if d:
                    out.append(core.v_diff(PROP, "partition", "partial changed by merging into the result of +", d,
                                           p.toJson(), args))
                    break
        # the reduction as Spark's aggregate / fill.sparksql perform it: fold the partials into zero() with +=
        for order in itertools.permutations(range(k)):
            accu = proto.zero()
            for i in order:
                accu += parts[i]
            d = C.diff(accu.toJson(), exp)
            if d:
                out.append(core.v_diff(PROP, "partition", "partials folded with += differ from single fill", d,
                                       accu.toJson(), dict(args, order=list(order))))
                break
    except Exception as e:
        out.append(core.v_exc(PROP, "partition", "partition/reduce raised", e, args))
    return out


def bounds(spec, tier):
    d = S.depth(spec)
    if tier == "quick":
        return {"capA": 8 if d > 1 else 12, "nA": 2, "nB": 1, "nT": 1, "capT": 8, "nS": 2, "kS": 2, "capS": 6}
    if d == 1:
        return {"capA": 12, "nA": 3, "nB": 2, "nT": 2, "capT": 6, "nS": 3, "kS": 3, "capS": 5}
    if d == 2:
        return {"capA": 12, "nA": 2, "nB": 1, "nT": 2, "capT": 4, "nS": 3, "kS": 3, "capS": 3}
    return {"capA": 8, "nA": 2, "nB": 1, "nT": 1, "capT": 6, "nS": 2, "kS": 3, "capS": 4}


def _tree(task):
    spec, tier = task
    acc = FW.Acc()
    acc.n("trees")
    B = bounds(spec, tier)
    evA = A.events(spec, "core", cap=B["capA"], noop=False, weights=[1.0])
    evB = A.events(spec, "core", cap=B["capA"], noop=True, weights=[1.0, 0.5])
    RA = core.reachable(spec, evA, B["nA"], acc)
    RB = core.reachable(spec, evB, B["nB"], acc)
    PA, PB = Pool(spec, RA), Pool(spec, RB)
    acc.n("states", len(RA) + len(RB))
    for i, ha in enumerate(PA.hist):
        acc.add(check_identity(spec, PA.objs[i], ha))
        PA.verify(i, acc, pair_args(spec, ha, []), "zero()/+")
        acc.n("identity_checks")
        acc.n("transitions", 5)
    for i, ha in enumerate(PA.hist):
        for j, hb in enumerate(PB.hist):
            acc.add(check_pair(spec, PA.objs[i], PB.objs[j], ha, hb))
            acc.n("pairs")
            acc.n("transitions", 2)
            if not ha or not hb:
                acc.n("pairs_with_empty_side")
            args = pair_args(spec, ha, hb)
            PA.verify(i, acc, args, "+")
            PB.verify(j, acc, args, "+")
            acc.distinct("pairs", FW.hkey((S.key(spec), i, j)))
    # partials that took another route to the reducer (reordered members, JSON, pickle)
    ra = PA.hist[:: max(1, len(PA.hist) // 5)][:6]
    rb = PB.hist[:: max(1, len(PB.hist) // 5)][:6]
    for ha, hb in itertools.product(ra, rb):
        acc.add(check_equivalent_partials(spec, ha, hb))
        acc.n("route_pairs")
        acc.n("transitions", 16)
    # associativity over all triples of a smaller reachable set
    evT = A.events(spec, "core", cap=B["capT"], noop=False, weights=[1.0, 0.5] if B["nT"] == 1 else [1.0])
    RT = core.reachable(spec, evT, B["nT"], acc)
    PT = Pool(spec, RT)
    idx = range(len(PT.hist))
    for i, j, k in itertools.product(idx, idx, idx):
        acc.add(check_triple(spec, PT.objs[i], PT.objs[j], PT.objs[k], PT.hist[i], PT.hist[j], PT.hist[k]))
        acc.n("triples")
        acc.n("transitions", 4)
    for i in idx:
        PT.verify(i, acc, pair_args(spec, PT.hist[i], []), "+ (triples)")
    if not any(n.get("tr") for _, _, n in S.node_ids(spec)):
        hs = PT.hist[: 4]
        for ha, hb, hc in itertools.product(hs, hs, hs):
            acc.add(check_build(spec, ha, hb, hc))
            acc.n("build_cases")
    # end to end: every stream, every assignment to k chunks, every schedule
    evS = A.events(spec, "core", cap=B["capS"], noop=True, weights=[1.0, 0.5])
    nsch = {k: len(list(schedules(k))) for k in range(1, B["kS"] + 1)}
    for n in range(0, B["nS"] + 1):
        for seq in itertools.product(range(len(evS)), repeat=n):
            stream = [evS[i] for i in seq]
            for k in range(1, B["kS"] + 1):
                for assign in itertools.product(range(k), repeat=n):
                    if k > 1 and n > 0 and assign[0] != 0:
                        continue  # chunks are symmetric under renaming: schedules cover all permutations
                    acc.add(check_partition(spec, stream, assign, k))
                    acc.n("partitions")
                    acc.n("schedules", nsch[k])
                    acc.n("transitions", n + nsch[k] * (k - 1))
                    if len(set(assign)) < k:
                        acc.n("partitions_with_empty_chunk")
    if len(PA.hist) > 1:
        acc.sample({"a": core.sample_hist(spec, PA.hist[-1]), "b": core.sample_hist(spec, PB.hist[-1]),
                    "checks": "a+b == b+a == fill(ha++hb); (a+b)+c == a+(b+c); a+zero == zero+a == a"})
    return acc.freeze_sets()


def trees(tier):
    t = S.D1() + S.D2()
    if tier != "quick":
        t += S.D3_quick() + S.D3flow() + S.D3()[::2]
    else:
        t += S.D3flow()[:12]
    t += S.DX()
    seen, out = set(), []
    for s in t:
        k = S.key(s)
        if k not in seen:
            seen.add(k)
            out.append(s)
    return out


def run(tier, seed):
    ts = trees(tier)
    accs = FW.pmap(_tree, [(t, tier) for t in ts], seed)
    acc = FW.Acc()
    for a in accs:
        acc.merge(a)
    ev = acc.c.get("pairs", 0) + acc.c.get("triples", 0) + acc.c.get("partitions", 0) + acc.c.get("identity_checks", 0) \
        + acc.c.get("route_pairs", 0)
    cov = {
        "states": acc.c.get("states", 0),
        "transitions": acc.c.get("transitions", 0) + acc.c.get("fill_sequences_executed", 0),
        "traces_validated_against_impl": ev,
        "evaluations": ev,
        "distinct_nontrivial": len(acc.sets.get("pairs", ())),
        "rule": "per tree: reachable sets A (<=nA unit-weight fills) and B (<=nB fills, weights {1,0.5,0,-1,NaN}); all "
                "pairs AxB: a+b==b+a==reference union; all triples of T: associativity; identity laws on every a in A; "
                "every stream of <=nS events x every assignment to <=kS chunks (empty chunks included) x every "
                "permutation x parenthesisation reduced with defs.combine; <=6x6 pairs with b replaced by an equivalent "
                "partial (members named in the opposite order, JSON with reordered object members, pickle); distinct = (tree, state a, state b)",
        "exhaustive": True,
        "bounds": {"trees": len(ts), "per_depth": {str(d): bounds({"t": "Count"} if d == 1 else
                                                                   (S.D2()[0] if d == 2 else S.D3_quick()[0]), tier)
                                                    for d in (1, 2, 3)}},
    }
    assumptions = [
        "operand objects are reused across pure merges and re-read after every use (a change is itself reported)",
        "reference = exact-rational multiset union (hgmc/refmodel.py); mean/variance compared with rel/abs 1e-9",
    ]
    return acc, cov, assumptions


def replay(driver, args):
    spec = args["spec"]
    if driver == "partition":
        return check_partition(spec, core.unshow_evs(args["stream"]), args["assign"], args["k"])
    ha, hb = core.unshow_evs(args["ha"]), core.unshow_evs(args["hb"])
    if driver == "build":
        return check_build(spec, ha, hb, core.unshow_evs(args["hc"]))
    if driver == "routes":
        return check_equivalent_partials(spec, ha, hb)
    if driver == "identity":
        return check_identity(spec, core.mk(spec, ha), ha)
    if driver == "assoc":
        hc = core.unshow_evs(args["hc"])
        return check_triple(spec, core.mk(spec, ha), core.mk(spec, hb), core.mk(spec, hc), ha, hb, hc)
    a, b = core.mk(spec, ha), core.mk(spec, hb)
    da, db = a.toJson(), b.toJson()
    out = check_pair(spec, a, b, ha, hb)
    for o, d0, nm in ((a, da, "a"), (b, db, "b")):
        d = C.diff(o.toJson(), d0, tol_keys=())
        if d:
            out.append(core.v_diff(PROP, "closure", "operand changed by +", d, o.toJson(), args))
    return out
