"""C15 — malformed or foreign JSON is rejected, never loaded as a corrupted aggregator. DESIGN §3 C15."""
import json

from .. import alphabet as A
from .. import core
from .. import framework as FW
from .. import jsonmut as J
from .. import spec as S

PROP = "C15"


def check_doc(spec, hist, infinite_weight=False, mutate=True):
    """Every unmutated document must load; every single-point mutant the reference rejects must be refused.
    infinite_weight: the last event is filled with weight +inf (documents carrying "inf"/"nan" strings)."""
    import histogrammar as hg
    import histogrammar.version as HV

    out = []
    stats = {"mutants": 0, "reference_rejects": 0, "reference_accepts": 0, "raised": 0}
    h = core.mk(spec, hist)
    if infinite_weight:
        try:
            h.fill(A.fresh(hist[-1][0]), float("inf"))
        except Exception:
            return out, stats
    doc = json.loads(json.dumps(h.toJson()))
    base = {"spec": spec, "hist": core.show_evs(hist), "infinite_weight": infinite_weight}
    if not J.valid_doc(doc, HV.specification):
        out.append(FW.violation(PROP, "valid-doc", "reference validator rejects a toJson() document:" + spec["t"],
                                "harness-or-format", base, {"doc": doc}))
        return out, stats
    try:
        hg.Factory.fromJson(doc)
    except Exception as e:
        out.append(core.v_exc(PROP, "valid-doc", "fromJson rejected a document produced by toJson", e, base))
        return out, stats
    seen = set()
    if not mutate:
        return out, stats
    for op, locus, path, mdoc in J.mutants(doc):
        key = json.dumps(mdoc, sort_keys=True)
        if key in seen:
            continue
        seen.add(key)
        stats["mutants"] += 1
        if J.valid_doc(mdoc, HV.specification):
            stats["reference_accepts"] += 1
            continue
        stats["reference_rejects"] += 1
        args = dict(base, op=op, path=list(path))
        try:
            r = hg.Factory.fromJson(json.loads(key))
        except Exception:
            stats["raised"] += 1
            # a refusal is a verdict on the document: the same document is refused again
            try:
                r = hg.Factory.fromJson(json.loads(key))
            except Exception:
                continue
            out.append(FW.violation(PROP, "mutant", locus, op + "/accepted-at-second-attempt", args,
                                    {"mutated_at": list(path), "value_now": _peek(mdoc, path)}))
            continue
        try:
            got = r.toJson()
        except Exception as e:
            got = "toJson of the loaded object raises %s" % type(e).__name__
        out.append(FW.violation(PROP, "mutant", locus, op, args,
                                {"mutated_at": list(path), "value_now": _peek(mdoc, path), "loaded_as": got}))
    return out, stats


def check_merged_doc(spec, value):
    """Documents of states reached by merging (their accumulators carry rounding residue, e.g. a variance a few 1e-17 below
    zero): whatever toJson writes, fromJson reads back."""
    import histogrammar as hg

    args = {"spec": spec, "value": value}
    try:
        rec = dict(A.DEFAULTS, x=value, y=value)
        stages = [core.mk(spec, [(rec, 1.0)] * 2) + core.mk(spec, [(rec, 1.0)] * 5),
                  core.mk(spec, [(rec, 1.0)]) + core.mk(spec, [(rec, 1.0)] * 5)]
        h = stages[0].copy()
        h += core.mk(spec, [(rec, 1.0)] * 3)
        stages.append(h)
        docs = [json.loads(json.dumps(x.toJson())) for x in stages]
    except Exception:
        return []
    for doc in docs:
        try:
            r = hg.Factory.fromJson(doc)
            if json.loads(json.dumps(r.toJson())) != doc:
                return [FW.violation(PROP, "valid-doc", "document of a merged state reloads as another document:" + spec["t"],
                                     "differs", args, {})]
        except Exception as e:
            return [core.v_exc(PROP, "valid-doc", "fromJson rejected a document produced by toJson (merged state)", e, args)]
    return []


def _peek(doc, path):
    try:
        return J.get(doc, path)
    except Exception:
        return "(deleted)"


def _tree(task):
    spec, tier = task[:2]
    acc = FW.Acc()
    acc.n("trees")
    evs = A.events(spec, "core", cap=6, noop=False, weights=[1.0])
    hists = [[], [evs[0], evs[len(evs) // 2], evs[-1]]]
    if any(n["t"] in ("Deviate", "Average") for _, _, n in S.node_ids(spec)) and not any(n.get("tr") for _, _, n in S.node_ids(spec)):
        for value in (0.3, 0.1, 1.0 / 3.0):
            acc.add(check_merged_doc(spec, value))
            acc.n("documents")
            acc.n("documents_of_merged_states")
    if task[2:] == ("valid-only",):
        # only "every document toJson produces can be read back" (the mutants of these shapes are those of their parts)
        for hist in hists:
            vs, st = check_doc(spec, hist, mutate=False)
            acc.add(vs)
            acc.n("documents")
        return acc.freeze_sets()
    if tier != "quick":
        hists.append([evs[1 % len(evs)], evs[-1], evs[-1]])
    if not any(n.get("tr") for _, _, n in S.node_ids(spec)):
        vs, st = check_doc(spec, hists[1], infinite_weight=True)
        acc.add(vs)
        acc.n("documents")
        acc.n("documents_with_nonfinite_numbers")
        for k, v in st.items():
            acc.n(k, v)
    for hist in hists:
        vs, st = check_doc(spec, hist)
        acc.add(vs)
        acc.n("documents")
        for k, v in st.items():
            acc.n(k, v)
        acc.distinct("docs", FW.hkey((S.key(spec), repr(core.show_evs(hist)))))
    acc.sample({"tree": S.sid(spec), "state": core.sample_hist(spec, hists[1])["fills"],
                "operators": ["M1 delete required key", "M2 add unknown key", "M3 retype value", "M4 rename type",
                              "M5 replace/truncate element", "M6 entries=-1", "M7 version"]})
    return acc.freeze_sets()


def named_trees():
    from .c11 import with_qk

    out = [with_qk(t, "named") for t in S.D1() if "q" in t]
    out += [with_qk(t, "named") for t in S.unary({"t": "Average", "q": "y"}, "x")]
    out += [with_qk(t, "named") for t in S.collections({"t": "Deviate", "q": "x"}, {"t": "Deviate", "q": "y"})]
    for qk in ("named",):
        leaf = {"t": "Sum", "q": "y", "qk": qk}
        out.append({"t": "Bin", "p": S.BIN_CFG[0], "q": "x", "qk": qk, "v": leaf})
        out.append({"t": "SparselyBin", "p": S.SPARSE_CFG[0], "q": "x", "qk": qk, "v": leaf})
        out.append({"t": "Categorize", "q": "c", "qk": qk, "v": leaf})
        out.append({"t": "Fraction", "q": "s", "qk": qk, "v": leaf})
        out.append({"t": "Select", "q": "s", "qk": qk, "v": leaf})
        out.append({"t": "CentrallyBin", "p": S.CENTRAL_CFG[0], "q": "x", "qk": qk, "v": leaf})
    return out


def trees(tier):
    t = S.D1() + S.D2() + named_trees()
    if tier == "quick":
        # depth-2 trees: one leaf per parent type is enough to reach every format branch of the parent; all leaves at D1
        seen_t, keep = set(), []
        for s in t:
            k = (s["t"], s.get("range"), s.get("qk"), "ch" in s and repr([c["t"] for c in (
                s["ch"].values() if isinstance(s["ch"], dict) else s["ch"])]),
                 s["v"]["t"] in ("Count", "Sum", "Bag") and (s["v"]["t"], s["v"].get("range")) if "v" in s else None)
            if k in seen_t:
                continue
            seen_t.add(k)
            keep.append(s)
        t = keep + S.D3flow()[:12]
    else:
        t += S.D3flow() + S.D3_quick()
    t += S.DX()
    seen, out = set(), []
    for s in t:
        k = S.key(s)
        if k not in seen:
            seen.add(k)
            out.append(s)
    return out


def run(tier, seed):
    ts = trees(tier)
    have = {S.key(t) for t in ts}
    extra = [t for t in S.NEST2() if S.key(t) not in have]
    accs = FW.pmap(_tree, [(t, tier) for t in ts] + [(t, tier, "valid-only") for t in extra], seed)
    acc = FW.Acc()
    for a in accs:
        acc.merge(a)
    cov = {
        "evaluations": acc.c.get("mutants", 0),
        "distinct_nontrivial": acc.c.get("reference_rejects", 0),
        "rule": "valid documents = toJson() of every tree in empty and filled states; a typed walk pairs every position with "
                "its role in the format; every single-point mutation at every position: M1 delete a required key, M2 add an "
                "unknown key, M3 retype a value to each JSON type its role never admits, M4 rename a type (unregistered and "
                "every other registered one), M5 replace/truncate an element of a bins/values/data collection, M6 negative "
                "entries, M7 version; mutants the reference validator still accepts are skipped and counted; non-trivial = "
                "distinct mutants the reference rejects (each must make fromJson raise)",
        "exhaustive": True,
        "bounds": {"trees": len(ts), "trees_checked_for_loadability_only": len(extra), "documents": acc.c.get("documents", 0)},
        "expected_to_raise": acc.c.get("reference_rejects", 0),
        "raised": acc.c.get("raised", 0),
        "skipped_still_valid": acc.c.get("reference_accepts", 0),
    }
    assumptions = ["the reference validator (hgmc/jsonmut.py) encodes the serialisation format: required/optional keys, JSON "
                   "types, registered type names, entries >= 0, low < high, binWidth > 0, bag values matching the range",
                   "not asserted: extra keys in the header, booleans as numbers, minor-version compatibility"]
    return acc, cov, assumptions


def replay(driver, args):
    if "value" in args and "hist" not in args:
        return check_merged_doc(args["spec"], args["value"])
    vs, _ = check_doc(args["spec"], core.unshow_evs(args["hist"]), args.get("infinite_weight", False))
    return vs
