"""C10 — incompatible aggregators are never merged silently. DESIGN §3 C10."""
import itertools

from .. import alphabet as A
from .. import canon as C
from .. import core
from .. import framework as FW
from .. import neighbours as NB
from .. import spec as S

PROP = "C10"

FOREIGN = [
    {"t": "Count"},
    {"t": "Sum", "q": "y"},
    {"t": "Average", "q": "y"},
    {"t": "Deviate", "q": "y"},
    {"t": "Minimize", "q": "y"},
    {"t": "Maximize", "q": "y"},
    {"t": "Bag", "q": "y", "range": "N"},
    {"t": "Bin", "p": [2, 0.0, 2.0], "q": "x", "v": {"t": "Count"}},
    {"t": "SparselyBin", "p": [1.0, 0.0], "q": "x", "v": {"t": "Count"}},
    {"t": "CentrallyBin", "p": [0.0, 1.0, 3.0], "q": "x", "v": {"t": "Count"}},
    {"t": "IrregularlyBin", "p": [0.0, 1.0], "q": "x", "v": {"t": "Count"}},
    {"t": "Stack", "p": [0.0, 1.0], "q": "x", "v": {"t": "Count"}},
    {"t": "Categorize", "q": "c", "v": {"t": "Count"}},
    {"t": "Fraction", "q": "s", "v": {"t": "Count"}},
    {"t": "Select", "q": "s", "v": {"t": "Count"}},
    {"t": "Label", "ch": {"a": {"t": "Count"}, "b": {"t": "Count"}}},
    {"t": "UntypedLabel", "ch": {"a": {"t": "Count"}, "b": {"t": "Count"}}},
    {"t": "Index", "ch": [{"t": "Count"}, {"t": "Count"}]},
    {"t": "Branch", "ch": [{"t": "Count"}, {"t": "Count"}]},
]


def parent_of_difference(a, b, path=("root",)):
    """Type chain from the root to the node where specs a and b first differ locally."""
    if a["t"] != b["t"]:
        return path
    for k in ("p", "range"):
        if a.get(k) != b.get(k):
            return path + (a["t"],)
    if a["t"] in S.UNARY:
        for k in ("uf", "of", "nf"):
            if (k in a) != (k in b):
                return path + (a["t"],)
        for k in ("v", "uf", "of", "nf"):
            if k in a and S.key(a[k]) != S.key(b[k]):
                return parent_of_difference(a[k], b[k], path + (a["t"],))
    if a["t"] in ("Label", "UntypedLabel"):
        if list(a["ch"]) != list(b["ch"]):
            return path + (a["t"],)
        for k in a["ch"]:
            if S.key(a["ch"][k]) != S.key(b["ch"][k]):
                return parent_of_difference(a["ch"][k], b["ch"][k], path + (a["t"],))
    if a["t"] in ("Index", "Branch"):
        if len(a["ch"]) != len(b["ch"]):
            return path + (a["t"],)
        for x, y in zip(a["ch"], b["ch"]):
            if S.key(x) != S.key(y):
                return parent_of_difference(x, y, path + (a["t"],))
    return path + (a["t"],)


def _sparse_bins(obj, chain):
    """Does the innermost sparse container on the path `chain` (types from the root down to the node that differs) hold
    any bin in this real object? Only there can the two sides' children meet (or be validated against a template)."""
    from ..invariants import _kids

    types = list(chain[1:])
    sparse_levels = [i for i, t in enumerate(types) if t in ("SparselyBin", "Categorize")]
    if not sparse_levels:
        return 0
    last = sparse_levels[-1]
    level = [obj] if obj.name == types[0] else []
    for i in range(last):
        level = [k for n in level for _, k in _kids(n) if k.name == types[i + 1]]
    return sum(len(n.bins) for n in level)


def _sparse_templates(obj, chain):
    """Do the innermost sparse containers on the path hold a template (value) to validate new bins against?"""
    from ..invariants import _kids

    types = list(chain[1:])
    sparse_levels = [i for i, t in enumerate(types) if t in ("SparselyBin", "Categorize")]
    if not sparse_levels:
        return False
    last = sparse_levels[-1]
    level = [obj] if obj.name == types[0] else []
    for i in range(last):
        nxt = [k for n in level for _, k in _kids(n) if k.name == types[i + 1]]
        # a sparse level without bins: look at its template instead
        if not nxt:
            nxt = [n.value for n in level if getattr(n, "value", None) is not None and n.value.name == types[i + 1]]
        level = nxt
    return bool(level) and all(getattr(n, "value", None) is not None for n in level)


def _own(n):
    """The parameters of a node itself (not of its children): what its own merge can compare before touching anything."""
    ch = n.get("ch")
    return (n["t"], repr(n.get("p")), n.get("range"),
            tuple(sorted(ch)) if isinstance(ch, dict) else (len(ch) if ch is not None else None))


def check_merge(sa, sb, ha, hb, label, reload_right=False, derive=None):
    """a (spec sa, history ha) and b (spec sb, history hb) are incompatible: every merge must raise and leave
    both untouched."""
    import histogrammar as hg

    args = {"sa": sa, "sb": sb, "ha": core.show_evs(ha), "hb": core.show_evs(hb), "label": label,
            "reload_right": reload_right, "derive": derive}
    out = []
    chain = parent_of_difference(sa, sb)
    if a_is_foreign(sa, sb):
        chain = ("root",)
    # root cause of a silent merge: the nearest sparse container above the difference (its children are only merged
    # when both sides have the same key), otherwise the node that differs
    sparse = [t for t in chain[1:] if t in ("SparselyBin", "Categorize")]
    local_param = not label.startswith("type:")
    above = chain[1:-1] if local_param else chain[1:]
    sparse_above = [t for t in above if t in ("SparselyBin", "Categorize")]
    if sparse_above:
        # only the *direct* child type of a sparse container is declared (bins:type); anything deeper - including the
        # content type of a nested sparse container - is hidden by the outermost sparse ancestor when it shares no key
        direct = (not local_param) and len(sparse_above) == 1 and chain[-1] == sparse_above[-1]
        under = "%s with no shared key (%s)" % (sparse_above[0], "content type" if direct else "nested structure")
    else:
        under = chain[-1] if len(chain) > 1 else "root"
    for op in ("a+b", "b+a", "a+=b", "b+=a"):
        try:
            a = core.mk(sa, ha)
            b = core.mk(sb, hb)
        except Exception:
            return out
        if derive:
            # the left tree's operand is itself the result of earlier algebra on reloaded partials: what such a result
            # declares about its structure must still be what its operands declared
            try:
                ra = hg.Factory.fromJson(a.toJson())
                a = {"R(a)+R(a)": lambda: ra + hg.Factory.fromJson(a.toJson()), "R(a).copy()": lambda: ra.copy(),
                     "R(a)*2": lambda: ra * 2, "R(a).zero()": lambda: ra.zero()}[derive]()
            except Exception:
                return out
        if reload_right:
            if op in ("a+b", "a+=b"):
                b = hg.Factory.fromJson(b.toJson())
            else:
                a = hg.Factory.fromJson(a.toJson())
        da, db = a.toJson(), b.toJson()
        ga, gb = C.digest(a, strict=False), C.digest(b, strict=False)
        # (looked at before the operation: a silent in-place merge changes what the left operand holds)
        left_, right_ = (a, b) if op in ("a+b", "a+=b") else (b, a)
        comparable = bool(sparse_above) and bool(_sparse_bins(right_, chain)) and _sparse_templates(left_, chain)
        raised = None
        try:
            if op == "a+b":
                a + b
            elif op == "b+a":
                b + a
            elif op == "a+=b":
                a += b
            else:
                b += a
        except Exception as e:
            raised = e
        left = (a if op in ("a+b", "a+=b") else b)
        opname = "__iadd__" if "=" in op else "__add__"
        oa = dict(args, op=op)
        if raised is None:
            lab = "type" if label.startswith("type:") else label
            under_ = under
            if sparse_above:
                # with bins on the right there is something to compare with this side's template (or bins): a silent merge is
                # then a different - and unlisted - matter than two sides that have nothing to compare
                # (a left operand without templates - reloaded, or derived from reloads - has nothing to validate against:
                # that is the listed finding, whatever the right side holds)
                if comparable and "no shared key" in under:
                    under_ = under.replace("no shared key", "bins on the right but no shared key")
            out.append(FW.violation(PROP, "merge", "%s under %s" % (opname, under_) if sparse_above else
                                    "%s at %s [%s]" % (opname, under, lab),
                                    "merged-silently", oa, {"chain": list(chain)}))
            continue
        changed = None
        for nm, o, d0, g0 in (("a", a, da, ga), ("b", b, db, gb)):
            try:
                d = C.diff(o.toJson(), d0, tol_keys=())
            except Exception as e:
                d = ("", "toJson raises after rejected merge: %s" % type(e).__name__, None, None)
            if d or C.digest(o, strict=False) != g0:
                changed = (nm, d)
                break
        if changed:
            nm, d = changed
            is_left = (nm == "a") == (op in ("a+b", "a+=b"))
            out.append(FW.violation(PROP, "merge", "%s.%s" % (left.name, opname)
                                    if is_left else "right-operand of %s.%s" % (left.name, opname),
                                    ("operand-changed-although-its-own-parameters-differ" if (
                                        len(chain) == 2 and _own(sa) != _own(sb)) else
                                     "operand-changed-by-rejected-merge") if is_left else "right-operand-changed",
                                    oa, {"operand": nm, "diff": d, "exception": repr(raised)[:200]}))
    return out


def check_built(spec, ha, hb, case):
    """A Stack assembled by Stack.build (its thresholds are NaN) has no cuts in common with a Stack that was booked
    with thresholds, nor with a built one of another length: every merge must raise and leave both untouched."""
    import histogrammar as hg

    args = {"spec": spec, "ha": core.show_evs(ha), "hb": core.show_evs(hb), "case": case}
    out = []
    child = spec["v"]
    nb = len(spec["p"]) + 1

    def operands():
        if case == "ordinary-vs-built":
            return core.mk(spec, ha), hg.Stack.build(*[core.mk(child, hb) for _ in range(nb)])
        if case == "ordinary-vs-reloaded-built":
            return core.mk(spec, ha), hg.Factory.fromJson(hg.Stack.build(*[core.mk(child, hb) for _ in range(nb)]).toJson())
        return (hg.Stack.build(*[core.mk(child, ha) for _ in range(nb)]),
                hg.Stack.build(*[core.mk(child, hb) for _ in range(nb + 1)]))

    for op in ("a+b", "b+a", "a+=b", "b+=a"):
        try:
            a, b = operands()
            da, db = a.toJson(), b.toJson()
        except Exception as e:
            return [core.v_exc(PROP, "built", "building the operands raised", e, args)]
        raised = None
        try:
            if op == "a+b":
                a + b
            elif op == "b+a":
                b + a
            elif op == "a+=b":
                a += b
            else:
                b += a
        except Exception as e:
            raised = e
        oa = dict(args, op=op)
        opname = "__iadd__" if "=" in op else "__add__"
        if raised is None:
            out.append(FW.violation(PROP, "built", "Stack.%s [%s]" % (opname, case), "merged-silently", oa, {}))
            continue
        for nm, o, d0 in (("a", a, da), ("b", b, db)):
            d = C.diff(o.toJson(), d0, tol_keys=())
            if d:
                out.append(FW.violation(PROP, "built", "Stack.%s [%s]" % (opname, case), "operand-changed-by-rejected-merge", oa,
                                        {"operand": nm, "diff": d, "exception": repr(raised)[:200]}))
                break
    return out


def a_is_foreign(sa, sb):
    return sa["t"] != sb["t"]


def root_name(spec):
    return spec["t"]


def _tree(task):
    spec, tier = task
    acc = FW.Acc()
    acc.n("trees")
    evs = A.events(spec, "core", cap=6, noop=False, weights=[1.0])
    h1 = [evs[0]]
    h2 = [evs[-1]] if len(evs) > 1 else [evs[0]]
    h12 = [evs[0], evs[len(evs) // 2]]
    states = [([], []), (h1, h1), (h1, h2), (h12, []), ([], h12), (h12, h12)]
    if tier == "quick":
        states = [([], []), (h1, h1), (h1, h2), (h12, [])]
    # (members exchanged between keys are a C09 neighbour: they are merge-compatible whenever the members have the same shape)
    nbs = [nb for nb in NB.valid_neighbours(spec) if not nb[0].endswith(".children-exchanged")]
    acc.n("neighbours", len(nbs))
    for label, d, ns in nbs:
        acc.n("neighbour_depth_%d" % d)
        for ha, hb in states:
            vs = check_merge(spec, ns, ha, hb, label)
            acc.add(vs)
            acc.n("merge_attempts", 4)
            acc.n("expected_to_raise", 4)
            acc.n("raised", 4 - sum(1 for v in vs if v["sig"].endswith("merged-silently")))
            acc.distinct("cases", FW.hkey((S.key(spec), S.key(ns), len(ha), len(hb), repr(A.show(hb[:1])))))
        if tier != "quick":
            acc.add(check_merge(spec, ns, h1, h1, label, reload_right=True))
            acc.n("merge_attempts", 4)
        if not any(n.get("tr") for _, _, n in S.node_ids(spec)):
            for derive in ("R(a)+R(a)", "R(a).copy()", "R(a)*2", "R(a).zero()"):
                for ha, hb in states[:2]:
                    acc.add(check_merge(spec, ns, ha, hb, label, derive=derive))
                    acc.n("merge_attempts", 4)
                    acc.n("merge_attempts_with_a_derived_operand", 4)
    if spec["t"] == "Stack" and not any(n.get("tr") for _, _, n in S.node_ids(spec)):
        for case in ("ordinary-vs-built", "ordinary-vs-reloaded-built", "built-vs-longer-built"):
            for ha, hb in states:
                acc.add(check_built(spec, ha, hb, case))
                acc.n("merge_attempts", 4)
                acc.n("expected_to_raise", 4)
                acc.n("built_stack_attempts", 4)
    # Select forwards attribute look-ups to its cut, so a Select wrapping the very same tree looks like that tree to any
    # merge that checks attributes instead of types
    wrapped = {"t": "Select", "q": "s", "v": spec}
    for ha, hb in states[:3]:
        acc.add(check_merge(spec, wrapped, ha, hb, "type:%s->Select" % spec["t"]))
        acc.n("merge_attempts", 4)
        acc.n("foreign_root_attempts", 4)
        acc.distinct("cases", FW.hkey((S.key(spec), "wrapped", len(ha), len(hb))))
    for f in FOREIGN:
        if f["t"] == spec["t"]:
            continue
        for ha, hb in states[:2]:
            acc.add(check_merge(spec, f, ha, hb, "type:%s->%s" % (spec["t"], f["t"])))
            acc.n("merge_attempts", 4)
            acc.n("foreign_root_attempts", 4)
            acc.distinct("cases", FW.hkey((S.key(spec), S.key(f), len(ha))))
    if nbs:
        acc.sample({"a": S.sid(spec), "b": S.sid(nbs[-1][2]), "changed": nbs[-1][0], "depth": nbs[-1][1],
                    "ops": ["a+b", "b+a", "a+=b", "b+=a"], "states": "empty/same keys/disjoint keys/one side empty"})
    return acc.freeze_sets()


def trees(tier):
    t = S.D1() + S.D2()
    t += S.D3flow()[:12]
    if tier != "quick":
        t += S.D3_quick() + S.D3flow() + S.D3()
    t += S.DX()
    seen, out = set(), []
    for s in t:
        k = S.key(s)
        if k not in seen:
            seen.add(k)
            out.append(s)
    return out


def run(tier, seed):
    ts = trees(tier)
    accs = FW.pmap(_tree, [(t, tier) for t in ts], seed)
    acc = FW.Acc()
    for a in accs:
        acc.merge(a)
    ev = acc.c.get("merge_attempts", 0)
    cov = {
        "states": len(acc.sets.get("cases", ())),
        "transitions": ev,
        "traces_validated_against_impl": ev,
        "evaluations": ev,
        "distinct_nontrivial": len(acc.sets.get("cases", ())),
        "rule": "per tree: every structural neighbour (one parameter, key, member or child type changed at any depth) and "
                "every foreign root primitive; operand states empty / same keys / disjoint keys / one side empty; a+b, b+a, "
                "a+=b, b+=a each on fresh objects; must raise and leave toJson and the object-graph digest of both operands "
                "unchanged; distinct = (tree, neighbour, state pair)",
        "exhaustive": True,
        "bounds": {"trees": len(ts)},
    }
    assumptions = ["any Exception counts as a rejection", "compatible pairs (no false rejection) are covered by C01/C07"]
    return acc, cov, assumptions


def replay(driver, args):
    if driver == "built":
        return check_built(args["spec"], core.unshow_evs(args["ha"]), core.unshow_evs(args["hb"]), args["case"])
    vs = check_merge(args["sa"], args["sb"], core.unshow_evs(args["ha"]), core.unshow_evs(args["hb"]), args["label"],
                     args.get("reload_right", False), args.get("derive"))
    return vs
