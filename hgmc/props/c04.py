"""C04 — JSON serialisation is lossless, strict and yields a fully usable container. DESIGN §3 C04."""
import itertools
import json
import os
import shutil
import tempfile

from .. import alphabet as A
from .. import canon as C
from .. import core
from .. import explorer as X
from .. import framework as FW
from .. import refmodel as R
from .. import spec as S
from .c05 import menu_args, menu_from_args

PROP = "C04"
SCRATCH_BASE = os.path.join(FW.VERIF, ".scratch")
SCRATCH = None  # a directory of this run only (concurrent runs of this check must not share or remove it)


def _scratch():
    global SCRATCH
    if SCRATCH is None or not os.path.isdir(SCRATCH):
        os.makedirs(SCRATCH_BASE, exist_ok=True)
        SCRATCH = tempfile.mkdtemp(prefix="c04_", dir=SCRATCH_BASE)
    return SCRATCH


def has_transform(spec):
    return any(n.get("tr") for _, _, n in S.node_ids(spec))


def PARTNER_HISTS(args):
    from .c05 import menu_from_args

    menu = menu_from_args(args["menu"])
    ev = menu["events"]
    # (the last one has a bool category / the other extreme values of the menu)
    return [[], [ev[0]], [ev[-2], ev[len(ev) // 2]], [e for e in ev if e[0].get("c") is True][:1] or [ev[-1]]]


def check_member(spec, h, evs, partners, args, via_file):
    """All C04 obligations for one live aggregator h whose reference multiset is evs."""
    import histogrammar as hg

    out = []
    try:
        doc = h.toJson()
        text = json.dumps(doc, allow_nan=False)
    except Exception as e:
        return [core.v_exc(PROP, "roundtrip", "toJson / json.dumps(allow_nan=False) raised", e, args)]
    d = C.diff(doc, R.ref_doc(spec, evs))
    if d:
        if C.diff(doc, R.ref_doc(spec, evs), drop_names=True) is None:
            # only quantity names differ: toJson() itself loses (or invents) a name - that is C04's business
            return [core.v_diff(PROP, "roundtrip", "toJson() does not carry the quantity names of the tree", d, doc, args)]
        # other content errors belong to other properties; stop here so that C04 only speaks about serialisation
        return out
    loaders = [("fromJson(dict)", lambda: hg.Factory.fromJson(json.loads(text))),
               ("fromJsonString", lambda: hg.Factory.fromJsonString(text)),
               ("fromJson(str)", lambda: hg.Factory.fromJson(text))]
    if via_file:
        def by_file():
            path = os.path.join(_scratch(), "c04_%d.json" % os.getpid())
            try:
                h.toJsonFile(path)
                return hg.Factory.fromJsonFile(path)
            finally:
                if os.path.exists(path):
                    os.unlink(path)

        loaders.append(("toJsonFile/fromJsonFile", by_file))
    r = None
    for nm, ld in loaders:
        try:
            x = ld()
            d = C.diff(x.toJson(), doc, tol_keys=())
        except Exception as e:
            out.append(core.v_exc(PROP, "roundtrip", "%s raised on a document produced by toJson" % nm, e, args))
            continue
        if d:
            out.append(core.v_diff(PROP, "roundtrip", "%s re-serialises differently" % nm, d, x.toJson(), args))
        r = r or x
    if r is None or out:
        return out
    # interchangeability with the original
    scale = not has_transform(spec)
    trials = []
    for gi, g in enumerate(partners):
        trials.append(("r+g vs h+g", lambda g=g: (r + g, h + g)))
        trials.append(("g+r vs g+h", lambda g=g: (g + r, g + h)))
    if scale:
        for f in (0.5, 2, 0):
            trials.append(("r*%s vs h*%s" % (f, f), lambda f=f: (r * f, h * f)))
    # results built from the reload must be as independent of it as results built from the original: merge into them
    more = partners[-1]

    def merged_into(x):
        x += more
        return x

    for gi, g in enumerate(partners):
        trials.append(("(r+g)+=m vs (h+g)+=m", lambda g=g: (merged_into(r + g), merged_into(h + g))))
        trials.append(("(g+r)+=m vs (g+h)+=m", lambda g=g: (merged_into(g + r), merged_into(g + h))))
    trials.append(("r.copy()+=m vs h.copy()+=m", lambda: (merged_into(r.copy()), merged_into(h.copy()))))

    def merged(x, y):
        x += y
        return x

    # the reload as the right operand of an in-place merge into a live partial (what fillsparksql does)
    for gi, ph in enumerate(PARTNER_HISTS(args)):
        trials.append(("g+=r vs g+=h", lambda ph=ph: (merged(core.mk(spec, ph), r), merged(core.mk(spec, ph), h))))
    trials.append(("h.toImmutable() vs r", lambda: (h.toImmutable(), r)))
    trials.append(("r.toImmutable() vs r", lambda: (r.toImmutable(), r)))
    trials.append(("fromJsonString(h.toJsonString()) vs r", lambda: (hg.Factory.fromJsonString(h.toJsonString()), r)))
    trials.append(("r.zero() vs h.zero()", lambda: (r.zero(), h.zero())))
    trials.append(("r.copy() vs h", lambda: (r.copy(), h)))
    for nm, t in trials:
        try:
            x, y = t()
            dx, dy = x.toJson(), y.toJson()
            d = C.diff(dx, dy)
            if d:
                out.append(core.v_diff(PROP, "interchange", nm, d, dx, dict(args, trial=nm)))
                continue
            # second generation
            json.dumps(dx, allow_nan=False)
            x2 = hg.Factory.fromJson(dx)
            d = C.diff(x2.toJson(), dx, tol_keys=())
            if d:
                out.append(core.v_diff(PROP, "interchange", "result of %s does not round-trip" % nm.split(" vs ")[0], d,
                                       x2.toJson(), dict(args, trial=nm)))
        except Exception as e:
            out.append(core.v_exc(PROP, "interchange", "%s raised" % nm.split(" vs ")[0].replace("g", "x"), e,
                                  dict(args, trial=nm)))
    d = C.diff(h.toJson(), doc, tol_keys=())
    if d:
        out.append(core.v_diff(PROP, "interchange", "original changed by algebra with its reload", d, h.toJson(), args))
    d = C.diff(r.toJson(), doc, tol_keys=())
    if d:
        out.append(core.v_diff(PROP, "interchange", "reload changed by algebra on results built from it", d, r.toJson(), args))
    return out


def check_nonfinite(spec, ev, how):
    """States whose accumulators are not finite (a fill with infinite weight, or scaling by +inf): only the
    serialisation obligations are asserted (the reference model does not define content for infinite weights)."""
    import histogrammar as hg

    args = {"spec": spec, "ev": core.show_evs([ev])[0], "how": how}
    out = []
    try:
        h = S.build(spec)
        if how == "fill(w=inf)":
            h.fill(A.fresh(ev[0]), float("inf"))
        elif how == "fill;fill(w=inf)":
            h.fill(A.fresh(ev[0]), 1.0)
            h.fill(A.fresh(ev[0]), float("inf"))
        else:
            h.fill(A.fresh(ev[0]), 1.0)
            h = h * float("inf")
    except Exception:
        return out  # whether such a state can be built at all is not C04's business
    try:
        doc = h.toJson()
        text = json.dumps(doc, allow_nan=False)
    except Exception as e:
        return [core.v_exc(PROP, "nonfinite", "toJson / json.dumps(allow_nan=False) raised on non-finite contents", e, args)]
    try:
        r = hg.Factory.fromJson(json.loads(text))
        d = C.diff(r.toJson(), doc, tol_keys=())
        if d:
            out.append(core.v_diff(PROP, "nonfinite", "reload of non-finite contents re-serialises differently", d,
                                   r.toJson(), args))
    except Exception as e:
        out.append(core.v_exc(PROP, "nonfinite", "fromJson raised on a toJson() document with non-finite contents", e, args))
    return out


def check_built(spec, e1, e2):
    """Containers assembled by Stack.build / Fraction.build (NaN thresholds, no quantity of their own) are reachable
    states too: their document must reload to the same document, and the reload must be usable - merged with the
    original, with a second reload, and in place - exactly like the original merged with itself."""
    import histogrammar as hg

    args = {"spec": spec, "evs": core.show_evs([e1, e2])}
    out = []
    try:
        mk = lambda: [core.mk(spec, [e1, e2]), core.mk(spec, [e2]), core.mk(spec, [])]  # noqa: E731
        builders = [("Stack.build", lambda: hg.Stack.build(*mk())), ("Fraction.build", lambda: hg.Fraction.build(*mk()[:2]))]
    except Exception:
        return out
    for nm, th in builders:
        try:
            h = th()
            doc = h.toJson()
            text = json.dumps(doc, allow_nan=False)
            twice = (h + th()).toJson()
        except Exception as e:
            out.append(core.v_exc(PROP, "built", "%s result cannot be serialised / merged with its twin" % nm, e, args))
            continue
        try:
            r1, r2 = hg.Factory.fromJson(json.loads(text)), hg.Factory.fromJsonString(text)
            d = C.diff(r1.toJson(), doc, tol_keys=())
            if d:
                out.append(core.v_diff(PROP, "built", "reload of a %s result re-serialises differently" % nm, d, r1.toJson(), args))
                continue
            if not (r1 == r2 and r2 == r1) or r1 != r2:  # (immutable form: live quantities are functions, reloaded ones names)
                out.append(FW.violation(PROP, "built", "two reloads of a %s result" % nm, "reloads-not-equal", args, {}))
            g = th()
            g += r2
            for what, m in (("reload + original", lambda: r1 + h), ("original + reload", lambda: h + r1),
                            ("reload + reload", lambda: r1 + r2), ("original += reload", lambda: g)):
                d = C.diff(m().toJson(), twice, tol_keys=())
                if d:
                    out.append(core.v_diff(PROP, "built", "%s of a %s result differs from original + original" % (what, nm),
                                           d, m().toJson(), args))
                    break
            d = C.diff(r1.toJson(), doc, tol_keys=()) or C.diff(h.toJson(), doc, tol_keys=())
            if d:
                out.append(core.v_diff(PROP, "built", "merging changed the %s result or its reload" % nm, d, r1.toJson(), args))
        except Exception as e:
            out.append(core.v_exc(PROP, "built", "reload of a %s result cannot be used like the original" % nm, e, args))
    return out


def _doc_of(spec):
    evs = A.events(spec, "core", cap=4, noop=False, weights=[1.0])
    hist = [evs[0], evs[-1]]
    return hist, json.loads(json.dumps(core.mk(spec, hist).toJson()))


def check_doc_sequence(i, tier, upto=None):
    """Loading a document is a function of that document alone. One execution: in a fresh process load document i,
    then every representative document in turn (each twice); every reload must re-serialise to exactly its own
    document and leave the caller's dict untouched. A violation is witnessed by (i, position): the replay re-executes the
    same prefix in a fresh process."""
    import histogrammar as hg

    ts = sequence_trees(tier)
    out, n = [], 0
    try:
        _, da = _doc_of(ts[i])
        hg.Factory.fromJson(da)
    except Exception as e:
        return [core.v_exc(PROP, "sequence", "loading a document raised", e, {"i": i, "tier": tier, "upto": 0})], 0
    for k, sb in enumerate(ts):
        if upto is not None and k > upto:
            break
        args = {"i": i, "tier": tier, "upto": k, "first_document_of": ts[i], "then_document_of": sb}
        try:
            _, db = _doc_of(sb)
            keep = json.dumps(db, sort_keys=True)
            for attempt in ("after other documents", "a second time"):
                r = hg.Factory.fromJson(db)
                n += 1
                d = C.diff(r.toJson(), json.loads(keep), tol_keys=())
                if d:
                    out.append(core.v_diff(PROP, "sequence", "reload of a document %s differs from the document" % attempt, d,
                                           r.toJson(), args))
                    return out, n
                if json.dumps(db, sort_keys=True) != keep:
                    out.append(FW.violation(PROP, "sequence", "fromJson(dict):" + sb["t"], "caller's-document-modified", args, {}))
                    return out, n
        except Exception as e:
            out.append(core.v_exc(PROP, "sequence", "loading documents in sequence raised", e, args))
            return out, n
    return out, n


def _seq(task):
    i, tier = task
    acc = FW.Acc()
    vs, n = check_doc_sequence(i, tier)
    acc.add(vs)
    acc.n("document_sequences")
    acc.n("roundtrips", n)
    return acc.freeze_sets()


def sequence_trees(tier):
    """One representative per (root type, child types) + the large shapes + collections whose keys differ."""
    cnt, sy = {"t": "Count"}, {"t": "Sum", "q": "y"}
    extra = [{"t": "UntypedLabel", "ch": {"p": cnt, "q": sy}}, {"t": "Label", "ch": {"p": sy, "q": sy}},
             {"t": "UntypedLabel", "ch": {"a": {"t": "UntypedLabel", "ch": {"x": cnt, "y": sy}},
                                          "b": {"t": "UntypedLabel", "ch": {"z": cnt}}}},
             {"t": "Index", "ch": [sy, sy, sy, sy]}, {"t": "Branch", "ch": [cnt, sy, cnt, sy]}]
    seen, out = set(), []
    for s in S.D1() + S.D2() + S.DX() + extra:
        if has_transform(s):
            continue
        k = (s["t"], s.get("range"), s["v"]["t"] if "v" in s else None,
             tuple(sorted(s["ch"])) if isinstance(s.get("ch"), dict) else (len(s["ch"]) if "ch" in s else None),
             repr(s.get("p")))
        if k not in seen:
            seen.add(k)
            out.append(s)
    return out


def check_rounding_state(spec, value):
    """A state whose accumulators carry rounding residue (merged partials that all saw the same non-dyadic value: the
    merged variance is a few 1e-17 away from zero, on either side): serialisation must reproduce it bit for bit."""
    import histogrammar as hg

    args = {"spec": spec, "value": value}
    out = []
    try:
        rec = dict(A.DEFAULTS, x=value, y=value)
        parts = [core.mk(spec, [(rec, 1.0)] * n) for n in (2, 5, 3)]
        h = parts[0] + parts[1]
        h += parts[2]
        for nm, o in (("a+b", parts[0] + parts[1]), ("(a+b)+=c", h), ("((a+b)+=c)*0.5", h * 0.5)):
            doc = o.toJson()
            text = json.dumps(doc, allow_nan=False)
            for how, r in (("fromJson(dict)", hg.Factory.fromJson(json.loads(text))), ("fromJsonString", hg.Factory.fromJsonString(text))):
                d = C.diff(r.toJson(), doc, tol_keys=())
                if d:
                    out.append(core.v_diff(PROP, "rounding", "%s of %s re-serialises differently" % (how, nm), d, r.toJson(), args))
                    return out
                d = C.diff((r + parts[2]).toJson(), (o + parts[2]).toJson(), tol_keys=())
                if d:
                    out.append(core.v_diff(PROP, "rounding", "reload of %s merges differently from the original" % nm, d,
                                           (r + parts[2]).toJson(), args))
                    return out
    except Exception as e:
        out.append(core.v_exc(PROP, "rounding", "round trip of a merged state raised", e, args))
    return out


def make_menu(spec, tier):
    recs = A.records(spec, "mid", cap=6 if tier == "quick" else 8)
    if "c" in S.fields(spec) and not any(r.get("c") is True for r in recs):
        recs = recs + [dict(recs[0], c=True)]  # a bool category (serialised under its name)
    events = [(r, 1.0) for r in recs] + [(recs[0], 0.5)]
    kinds = ["fill", "add", "copy"]
    menu = {"events": events, "factors": [0.5, 0], "kinds": kinds}
    if not has_transform(spec):
        menu["kinds"] = kinds + ["mul"]
    return menu


def _tree(task):
    spec, tier = task
    acc = FW.Acc()
    acc.n("trees")
    menu = make_menu(spec, tier)
    d = S.depth(spec)
    H = 2 if (tier == "quick" or d >= 3) else 3
    P = 2
    partner_hists = [[], [menu["events"][0]], [menu["events"][-2], menu["events"][len(menu["events"]) // 2]]]
    seen_obs = set()
    nfile = [0]

    def on_state(pool, refs, hist):
        if refs is None:
            return
        for i, o in enumerate(pool):
            try:
                k = C.obs(o)
            except Exception:
                k = ("unserialisable", len(seen_obs))
            if k in seen_obs:
                continue
            seen_obs.add(k)
            partners = [core.mk(spec, ph) for ph in partner_hists]
            args = {"spec": spec, "menu": menu_args(menu), "history": [list(op) for op in hist], "member": i}
            via_file = nfile[0] < (6 if tier == "quick" else 40)
            nfile[0] += 1
            acc.add(check_member(spec, o, refs[i].evs, partners, args, via_file))
            acc.n("states_checked")
            acc.n("roundtrips", 3 + (1 if via_file else 0))
            acc.distinct("states", FW.hkey((S.key(spec), k)))

    def on_error(hist, op, exc, pool, refs):
        pass  # failing operations are reported by C05

    st = X.bfs(spec, menu, H, P, on_state, on_error)
    if any(n["t"] in ("Deviate", "Average", "Sum") for _, _, n in S.node_ids(spec)) and not has_transform(spec):
        for value in (0.3, 0.1, 1.0 / 3.0, 1e-3, 123456.789):
            acc.add(check_rounding_state(spec, value))
            acc.n("rounding_states", 3)
            acc.n("roundtrips", 6)
    if not has_transform(spec):
        for ev in menu["events"][:4]:
            for how in ("fill(w=inf)", "fill;fill(w=inf)", "fill;*inf"):
                acc.add(check_nonfinite(spec, ev, how))
                acc.n("nonfinite_states")
                acc.n("roundtrips")
    if not has_transform(spec):
        for e1, e2 in itertools.product(menu["events"][:4], repeat=2):
            acc.add(check_built(spec, e1, e2))
            acc.n("built_containers", 2)
            acc.n("roundtrips", 4)
    acc.n("states", st["states"])
    acc.n("transitions", st["transitions"])
    acc.sample({"tree": S.sid(spec), "history": X.show_history([("fill", 0, 0), ("copy", 0), ("fill", 1, 1)], menu)[:3],
                "checks": "dumps(allow_nan=False); fromJson/fromJsonString/file fixpoint; r+g, g+r, r*f, zero, copy vs original"})
    return acc.freeze_sets()


def named_variants():
    """Trees with named quantities of every kind (names must survive as name / values:name / bins:name / sub:name)."""
    out = []
    for qk in ("def", "str", "named", "named_empty", "cached", "named_cached"):
        leaf = {"t": "Sum", "q": "y", "qk": qk}
        out.append(leaf)
        out.append({"t": "Bin", "p": S.BIN_CFG[0], "q": "x", "qk": qk, "v": leaf})
        out.append({"t": "SparselyBin", "p": S.SPARSE_CFG[0], "q": "x", "qk": qk, "v": leaf})
        out.append({"t": "CentrallyBin", "p": S.CENTRAL_CFG[0], "q": "x", "qk": qk, "v": {"t": "Average", "q": "y", "qk": qk}})
        out.append({"t": "IrregularlyBin", "p": S.IRR_CFG[0], "q": "x", "qk": qk, "v": {"t": "Deviate", "q": "y", "qk": qk}})
        out.append({"t": "Stack", "p": S.STACK_CFG[0], "q": "x", "qk": qk, "v": {"t": "Minimize", "q": "y", "qk": qk}})
        out.append({"t": "Categorize", "q": "c", "qk": qk, "v": {"t": "Bag", "q": "y", "range": "N", "qk": qk}})
        out.append({"t": "Fraction", "q": "s", "qk": qk, "v": leaf})
        out.append({"t": "Select", "q": "s", "qk": qk, "v": {"t": "Bin", "p": S.BIN_CFG[0], "q": "x", "qk": qk, "v": leaf}})
        out.append({"t": "Label", "ch": {"a": leaf, "b": {"t": "Sum", "q": "x", "qk": qk}}})
        out.append({"t": "Branch", "ch": [leaf, {"t": "Maximize", "q": "x", "qk": qk}]})
    return out


def _dispatch(task):
    return _tree(task[1]) if task[0] == "tree" else _seq(task[1])


def trees(tier):
    t = S.D1() + S.D2() + S.D3flow() + named_variants()
    if tier != "quick":
        t += S.D3_quick() + S.D3()
    t += S.DX()
    seen, out = set(), []
    for s in t:
        k = S.key(s)
        if k not in seen:
            seen.add(k)
            out.append(s)
    return out


def run(tier, seed):
    ts = trees(tier)
    mine = _scratch()
    try:
        accs = FW.pmap(_dispatch, [("tree", (t, tier)) for t in ts], seed)
        # (before anything was loaded in this process) document sequences, each in a process of its own
        accs += FW.pmap(_dispatch, [("seq", (i, tier)) for i in range(len(sequence_trees(tier)))], seed, fresh=True)
    finally:
        shutil.rmtree(mine, ignore_errors=True)
    acc = FW.Acc()
    for a in accs:
        acc.merge(a)
    cov = {
        "states": acc.c.get("states", 0),
        "transitions": acc.c.get("transitions", 0),
        "traces_validated_against_impl": acc.c.get("states_checked", 0),
        "evaluations": acc.c.get("roundtrips", 0),
        "distinct_nontrivial": len(acc.sets.get("states", ())),
        "rule": "per tree: breadth-first search over histories of fill, +, * and copy on a pool of <=2 aggregators; every "
                "distinct observable state of every pool member is serialised with json.dumps(allow_nan=False), reloaded "
                "through fromJson(dict/str), fromJsonString and (bounded number) toJsonFile/fromJsonFile, must re-serialise "
                "identically, and the reload r is used in r+g, g+r (3 partner states), r*{0.5,2,0}, zero(), copy() against "
                "the original, each result round-tripping again; trees include every flow-slot and sparse-content "
                "combination (D3flow) and every quantity kind (def, string, named, cached); every ordered pair of documents of "
                "the representative trees loaded one after the other in one process (and each twice): the reload equals its "
                "own document, the caller's dict is untouched; containers assembled by Stack.build / Fraction.build from every "
                "pair of <=4 events: the reload re-serialises identically, equals a second reload, and reload+original, "
                "original+reload, reload+reload, original+=reload equal original+original",
        "exhaustive": True,
        "bounds": {"trees": len(ts), "H": "2 (quick, depth 3) / 3", "P": 2},
    }
    assumptions = ["states whose content already disagrees with the reference are left to C02/C05 (C04 only judges serialisation)",
                   "document equality is exact dict/list equality with numbers compared as floats"]
    return acc, cov, assumptions


def replay(driver, args):
    if driver == "sequence":
        return check_doc_sequence(args["i"], args["tier"], args["upto"])[0]
    if driver == "rounding":
        return check_rounding_state(args["spec"], args["value"])
    spec = args["spec"]
    if driver == "sequence":
        return check_doc_sequence(args["i"], args["tier"], args["upto"])[0]
    if driver == "nonfinite":
        return check_nonfinite(spec, core.unshow_evs([args["ev"]])[0], args["how"])
    if driver == "built":
        e1, e2 = core.unshow_evs(args["evs"])
        return check_built(spec, e1, e2)
    menu = menu_from_args(args["menu"])
    hist = [tuple(op) for op in args["history"]]
    pool, refs = X.replay(spec, hist, menu)
    i = args["member"]
    partner_hists = [[], [menu["events"][0]], [menu["events"][-2], menu["events"][len(menu["events"]) // 2]]]
    partners = [core.mk(spec, ph) for ph in partner_hists]
    try:
        return check_member(spec, pool[i], refs[i].evs, partners, args, True)
    finally:
        if SCRATCH:
            shutil.rmtree(SCRATCH, ignore_errors=True)
