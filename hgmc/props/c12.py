"""C12 — a fill that raises leaves the aggregator as if the record had been skipped. DESIGN §3 C12."""
import itertools

from .. import alphabet as A
from .. import canon as C
from .. import core
from .. import framework as FW
from .. import refmodel as R
from .. import spec as S

PROP = "C12"


def wrong_values(node):
    """Return values of the wrong type for this node's quantity."""
    t = node["t"]
    if t == "Categorize":
        return [1.5, [1]]
    if t == "Bag":
        r = node.get("range", "N")
        if r == "S":
            return [3.0, None]
        if r == "N":
            return ["abc", None]
        return [(1.0,), "ab"]
    import decimal

    import numpy as np

    return ["abc", complex(1.0, 1.0), decimal.Decimal("1.5"), None, [1.0], np.str_("abc"), np.complex128(1 + 1j),
            np.datetime64("2020-01-01")]


def failing_nodes(spec):
    return [(nid, n) for nid, _, n in S.node_ids(spec) if "q" in n]


def run_stream(spec, stream, fail_at, nid, mode, val):
    """Process the stream with try/except-continue; positions in fail_at carry the fault for node nid."""
    args = {"spec": spec, "stream": core.show_evs(stream), "fail_at": sorted(fail_at), "nid": nid, "mode": mode,
            "val": A.show(val)}
    out = []
    h = S.build(spec, failing=True)
    survivors = []
    nraised = 0
    node = dict((i, n) for i, n in failing_nodes(spec))[nid]
    for i, (r, w) in enumerate(stream):
        if i in fail_at:
            r = dict(r, fail=(nid, mode, val))
            before = h.toJson()
            g0 = C.digest(h, strict=False)
            try:
                h.fill(A.fresh(r), w)
            except Exception as e:
                nraised += 1
                try:
                    after = h.toJson()
                except Exception as e2:
                    out.append(core.v_exc(PROP, "fault", "state corrupted by a fill that raised (toJson now raises)", e2,
                                          args, {"step": i, "failing_node": node["t"]}))
                    return out, nraised
                d = C.diff(after, before, tol_keys=())
                if d:
                    out.append(core.v_diff(PROP, "fault", "state changed by a fill that raised", d, after, args,
                                           {"step": i, "failing_node": node["t"],
                                            "mode": "exception" if mode == "raise" else "wrong type"}))
                    return out, nraised
                if C.digest(h, strict=False) != g0:
                    out.append(FW.violation(PROP, "fault", "object graph changed by a fill that raised:" + spec["t"],
                                            "digest", args, {"step": i}))
                    return out, nraised
                continue
            # no exception: the faulty quantity was not evaluated for this record - or its value was swallowed
            try:
                h.toJson()
            except Exception as e2:
                out.append(core.v_exc(PROP, "fault", "a wrong-typed value was accepted and the state can no longer be serialised",
                                      e2, args, {"step": i, "failing_node": node["t"]}))
                return out, nraised
            survivors.append((r, w))
        else:
            try:
                h.fill(A.fresh(r), w)
            except Exception as e:
                out.append(core.v_exc(PROP, "fault", "healthy record raised", e, args, {"step": i}))
                return out, nraised
            survivors.append((r, w))
    if any(w not in (1.0, 0.5, 2.0) for _, w in stream):
        # weights such as 0.1: float sums round, the exact reference does not; "unchanged by a fill that raised" above
        # was compared bit for bit and is the whole oracle here
        return out, nraised
    try:
        d = core.ref_diff(h, spec, survivors, drop_names=True)
    except Exception as e:
        # a wrong-typed value was swallowed without an exception and now sits in an accumulator
        out.append(core.v_exc(PROP, "fault", "state cannot be serialised after the stream (a faulty record was accepted)", e, args))
        return out, nraised
    if d:
        out.append(core.v_diff(PROP, "fault", "final state differs from the aggregate of the surviving records", d,
                               h.toJson(), args))
    return out, nraised


def run_stream_missing(spec, stream, fail_at, field):
    """String-expression quantities; the records at fail_at lack `field`, so evaluating a quantity that reads it must
    raise (NameError) - every time, whatever earlier records looked like - and leave the tree untouched."""
    from .c11 import with_qk

    sspec = with_qk(spec, "str")
    args = {"spec": spec, "stream": core.show_evs(stream), "fail_at": sorted(fail_at), "field": field, "mode": "missing"}
    out = []
    h = S.build(sspec)
    survivors = []
    nraised = 0
    for i, (r, w) in enumerate(stream):
        if i in fail_at:
            bad = {k: v for k, v in A.fresh(r).items() if k != field}
            before = h.toJson()
            try:
                h.fill(bad, w)
            except Exception:
                nraised += 1
                d = C.diff(h.toJson(), before, tol_keys=())
                if d:
                    out.append(core.v_diff(PROP, "missing-field", "state changed by a fill that raised", d, h.toJson(), args,
                                           {"step": i}))
                    return out, nraised
                continue
            if w > 0 and reads_on_path(spec, r, field):
                out.append(FW.violation(PROP, "missing-field", "string quantity on a record lacking its field",
                                        "record-accepted-instead-of-raising", args, {"step": i}))
                return out, nraised
            survivors.append((dict(r), w))
        else:
            try:
                h.fill(A.fresh(r), w)
            except Exception as e:
                out.append(core.v_exc(PROP, "missing-field", "healthy record raised", e, args, {"step": i}))
                return out, nraised
            survivors.append((r, w))
    d = core.ref_diff(h, sspec, survivors)
    if d:
        out.append(core.v_diff(PROP, "missing-field", "final state differs from the aggregate of the surviving records", d,
                               h.toJson(), args))
    return out, nraised


def reads_on_path(spec, rec, field):
    """Does filling `rec` into the tree evaluate a quantity that reads `field`? (the root's quantity always is; below,
    only along the path the record takes - decided with the reference routing)"""
    from ..refmodel import bin_route

    node = spec
    while True:
        if node.get("q") == field:
            return True
        t = node["t"]
        if t in ("Select",):
            s_ = rec[node["q"]]
            if not (s_ * 1.0 > 0):
                return False
            node = node["v"]
        elif t in S.BINNING:
            x = float(rec[node["q"]])
            if x != x:
                node = node.get("nf", {"t": "Count"})
            elif t == "Bin" and x < node["p"][1]:
                node = node.get("uf", {"t": "Count"})
            elif t == "Bin" and x >= node["p"][2]:
                node = node.get("of", {"t": "Count"})
            else:
                node = node["v"]
        elif t == "Categorize":
            node = node["v"]
        else:
            return False


def _tree(task):
    spec, tier = task
    acc = FW.Acc()
    acc.n("trees")
    d = S.depth(spec)
    n = (3 if d <= 2 else 2) if tier == "quick" else (4 if d <= 2 else 3)
    cap = 4 if tier == "quick" or d >= 3 else 5
    if any(k in n for _, _, n in S.node_ids(spec) for k in ("uf", "of")):
        cap = 10  # (data below and above the range must be in the menu for the flow slots to be on the path at all)
        n = min(n, 2) if tier == "quick" else min(n, 3)  # (10 records: 10**3 streams x subsets x faults per failing node)
    recs = A.records(spec, "core", cap=cap)
    evs = [(r, 1.0) for r in recs]
    nodes = failing_nodes(spec)
    for nid, node in nodes:
        wv = wrong_values(node)
        # (numpy scalars that are not real numbers are wrong types too; two of them even in the quick tier)
        faults = [("raise", None)] + [("wrong", v) for v in (wv[:3] + wv[5:7] if tier == "quick" else wv)]
        for mode, val in faults:
            for k in range(1, n + 1):
                for seq in itertools.product(range(len(evs)), repeat=k):
                    stream = [evs[i] for i in seq]
                    # deviation-bounded: subsets of failing positions by increasing size
                    for size in range(0, k + 1):
                        if size == 0 and (mode != "raise" or nid != nodes[0][0]):
                            continue
                        for fail_at in itertools.combinations(range(k), size):
                            vs, nr = run_stream(spec, stream, set(fail_at), nid, mode, val)
                            acc.add(vs)
                            acc.n("executions")
                            acc.n("faults_injected", size)
                            acc.n("faults_that_raised", nr)
                            acc.n("subsets_of_size_%d" % size)
                            if size:
                                acc.distinct("cases", FW.hkey((S.key(spec), nid, mode, repr(val), seq, fail_at)))
    # a wrong-typed value that *looks like* a category booked by an earlier healthy record (the number 1.5 after the
    # string "1.5"): whether it is refused must not depend on what the stream has booked so far
    for nid, node in nodes:
        if node["t"] != "Categorize":
            continue
        f = node["q"]
        evs2 = [((dict(r, **{f: "1.5"}) if r.get(f) == "a" else r), w) for r, w in evs]
        for k in range(2, max(n, 2) + 1):
            for seq in itertools.product(range(len(evs2)), repeat=k):
                stream = [evs2[i] for i in seq]
                for size in range(1, k + 1):
                    for fail_at in itertools.combinations(range(k), size):
                        vs, nr = run_stream(spec, stream, set(fail_at), nid, "wrong", 1.5)
                        acc.add(vs)
                        acc.n("executions")
                        acc.n("executions_with_lookalike_wrong_value")
                        acc.n("faults_injected", size)
                        acc.n("faults_that_raised", nr)
    # the same with weights whose sums round (an "add, then subtract again on failure" is only exact for dyadic weights)
    W = (0.1, 0.2, 0.7)
    for nid, node in nodes:
        for k in (2, 3) if tier != "quick" else (2,):
            for seq in itertools.product(range(min(len(evs), 3)), repeat=k):
                stream = [(evs[i][0], W[j]) for j, i in enumerate(seq)]
                for size in range(1, k + 1):
                    for fail_at in itertools.combinations(range(k), size):
                        vs, nr = run_stream(spec, stream, set(fail_at), nid, "raise", None)
                        acc.add(vs)
                        acc.n("executions")
                        acc.n("executions_with_rounding_weights")
                        acc.n("faults_injected", size)
                        acc.n("faults_that_raised", nr)
    # missing-field failures of string-expression quantities (no injected wrapper: the library's own evaluation)
    if not any(n.get("qk") or n.get("tr") for _, _, n in S.node_ids(spec)):
        for field in sorted(S.fields(spec)):
            for k in range(1, min(n, 3) + 1):
                for seq in itertools.product(range(len(evs)), repeat=k):
                    stream = [evs[i] for i in seq]
                    for size in range(1, k + 1):
                        for fail_at in itertools.combinations(range(k), size):
                            vs, nr = run_stream_missing(spec, stream, set(fail_at), field)
                            acc.add(vs)
                            acc.n("executions")
                            acc.n("missing_field_cases")
                            acc.n("faults_injected", size)
                            acc.n("faults_that_raised", nr)
                            acc.distinct("cases", FW.hkey((S.key(spec), "missing", field, seq, fail_at)))
    if nodes:
        acc.sample({"tree": S.sid(spec), "stream": [core.compact(r, spec) for r, _ in evs[:2]],
                    "failing_node": nodes[-1][1]["t"], "modes": ["quantity raises", "quantity returns wrong type"],
                    "fail_at": "every subset of positions"})
    return acc.freeze_sets()


def trees(tier):
    t = [s for s in S.SP(2 if tier == "quick" else 3) if "q" in s or S.depth(s) > 1]
    fan = ("Label", "UntypedLabel", "Index", "Branch", "Fraction", "Stack")
    t += [x for x in S.DX() if not any(n["t"] in fan for _, _, n in S.node_ids(x))]
    # quantities behind a caching wrapper: a failure must not be remembered as if it had been a success
    from .c11 import with_qk

    base = [x for x in S.D1() if "q" in x and not x.get("tr")]
    base += [{"t": "Bin", "p": S.BIN_CFG[0], "q": "x", "v": {"t": "Sum", "q": "y"}},
             {"t": "Categorize", "q": "c", "v": {"t": "Average", "q": "y"}}, {"t": "Select", "q": "s", "v": {"t": "Sum", "q": "y"}}]
    t += [with_qk(x, "cached") for x in base]
    seen, out = set(), []
    for s in t:
        k = S.key(s)
        if k not in seen and failing_nodes(s):
            seen.add(k)
            out.append(s)
    return out


def run(tier, seed):
    ts = trees(tier)
    accs = FW.pmap(_tree, [(t, tier) for t in ts], seed)
    acc = FW.Acc()
    for a in accs:
        acc.merge(a)
    cov = {
        "evaluations": acc.c.get("executions", 0),
        "distinct_nontrivial": len(acc.sets.get("cases", ())),
        "rule": "single-path trees (nestings of Bin/SparselyBin/CentrallyBin/IrregularlyBin/Categorize/Select over every "
                "leaf, depth<=%d): every stream of 1..n records over the tree's alphabet x every quantity-bearing node "
                "as the failing one x {quantity raises, quantity returns a wrong type} x every subset of stream "
                "positions (by increasing size); for Categorize nodes also a wrong-typed value that looks like a category booked "
                "by an earlier healthy record (1.5 after '1.5'); stream processed with try/except-continue; distinct = (tree, node, "
                "mode, stream, failing subset) with >=1 fault" % (2 if tier == "quick" else 3),
        "exhaustive": True,
        "bounds": {"trees": len(ts), "n": "3 (quick, depth 3) / 4"},
        "states": len(acc.sets.get("cases", ())),
        "transitions": acc.c.get("executions", 0),
    }
    assumptions = ["after each raising fill both toJson() and the object-graph digest (minus the once-only cross-reference "
                   "flag and CachedFcn memo) must equal their values before the call",
                   "final state compared with the reference aggregate of the records that did not raise"]
    return acc, cov, assumptions


def replay(driver, args):
    if driver == "missing-field":
        vs, _ = run_stream_missing(args["spec"], core.unshow_evs(args["stream"]), set(args["fail_at"]), args["field"])
        return vs
    val = A.unshow(args["val"])
    vs, _ = run_stream(args["spec"], core.unshow_evs(args["stream"]), set(args["fail_at"]), args["nid"], args["mode"], val)
    return vs
