"""C05 — bookkeeping invariants over operation histories + configuration/ulp sweep. DESIGN §3 C05."""
import math

import numpy as np

from .. import alphabet as A
from .. import canon as C
from .. import core
from .. import explorer as X
from .. import framework as FW
from .. import invariants as I
from .. import refmodel as R
from .. import spec as S

PROP = "C05"
INF = float("inf")
NAN = float("nan")


# ------------------------------------------------------------------ part 1: histories
def make_menu(spec, tier, with_np):
    recs = A.records(spec, "core", cap=4 if tier == "quick" else 5)
    events = [(r, 1.0) for r in recs] + [(recs[0], 0.5), (recs[-1], 0.0)]
    menu = {"events": events, "factors": [0.5, 0], "kinds": ["fill", "add", "iadd", "mul", "copy", "zero", "json", "pickle"]}
    if with_np:
        from .c03 import numpy_alphabet

        nrecs = numpy_alphabet(spec, "core", 3)
        menu["batches"] = [(nrecs[:2], None), (nrecs, [0.5, 2.0, 1.0][: len(nrecs)]), (nrecs[-2:], [0.5, 0.0]), ([], None),
                           (nrecs[:2], 2.0), ([], 2.0),  # scalar weights, on batches as long as earlier ones
                           (nrecs[:2], [-1.0, 2.0]), (nrecs[:2], [NAN, 0.5]), (nrecs[:2], -1.0)]  # rows / batches that are no-ops
        menu["kinds"].append("fillnp")
    return menu


def menu_args(menu):
    return {"events": core.show_evs(menu["events"]), "factors": menu["factors"], "kinds": menu["kinds"],
            "batches": [[[A.show(r) for r in recs], ws] for recs, ws in menu.get("batches", [])],
            "init": [list(op) for op in menu.get("init", [])]}


def menu_from_args(a):
    m = {"events": core.unshow_evs(a["events"]), "factors": a["factors"], "kinds": a["kinds"]}
    if a.get("batches"):
        m["batches"] = [([A.unshow(r) for r in recs], ws) for recs, ws in a["batches"]]
    if a.get("init"):
        m["init"] = [tuple(op) for op in a["init"]]
    return m


def _derived_of_reload(o):
    """zero(), copy() and o*0.5 of the JSON reload of o (one more step than the search depth allows for)."""
    import histogrammar as hg

    r = hg.Factory.fromJson(o.toJson())
    out = [("copy() of the reload", r.copy(), 1.0), ("zero() of the reload", r.zero(), 0.0)]
    try:
        out.append(("reload*0.5", r * 0.5, 0.5))
    except Exception:
        pass  # (Count with a transform refuses scaling)
    return out


def check_state(spec, pool, refs, hist, menu, out):
    args = {"spec": spec, "menu": menu_args(menu), "history": [list(op) for op in hist]}
    for i, o in enumerate(pool):
        if refs is not None and len(hist) <= 1:
            try:
                for nm, d_, f in _derived_of_reload(o):
                    r = I.inv(d_)
                    if r:
                        out.append(FW.violation(PROP, "history", "%s invariant in %s" % (r[1], nm), r[2].split("=")[0].split(" ")[0],
                                                args, {"member": i, "path": r[0], "message": r[2], "history": X.show_history(hist, menu)}))
                        return
                    dd = C.diff(d_.toJson(), R.ref_doc(spec, R.scale_events(refs[i].evs, f)), prune_zero=True)
                    if dd:
                        out.append(core.v_diff(PROP, "history", "%s differs from the reference" % nm, dd, d_.toJson(), args,
                                               {"member": i, "history": X.show_history(hist, menu)}))
                        return
            except Exception as e:
                out.append(core.v_exc(PROP, "history", "deriving from the reload raised", e, args, {"member": i}))
                return
        r = I.inv(o)
        if r:
            path, typ, msg = r
            kind = msg.split("=")[0].split(" ")[0]
            out.append(FW.violation(PROP, "history", "%s invariant after %s" % (typ, hist[-1][0] if hist else "init"),
                                    kind, args, {"member": i, "path": path, "message": msg,
                                                 "history": X.show_history(hist, menu)}))
            return
        if refs is not None:
            d = C.diff(o.toJson(), R.ref_doc(spec, refs[i].evs), prune_zero=True)
            if d:
                v = core.v_diff(PROP, "history", "member differs from reference after %s" % (hist[-1][0] if hist else "init"),
                                d, o.toJson(), args, {"member": i, "history": X.show_history(hist, menu)})
                out.append(v)
                return


def explore_tree(spec, tier, acc):
    with_np = bool(S.fields(spec))
    menu = make_menu(spec, tier, with_np)
    d = S.depth(spec)
    if tier == "quick":
        H, P = (3 if d <= 2 else 2), (3 if d == 1 else 2)
    else:
        H, P = (4 if d == 1 else 3), 3
    out = []
    menu_holder = [menu]

    def on_state(pool, refs, hist):
        if not out:
            check_state(spec, pool, refs, hist, menu_holder[0], out)
        acc.distinct("obs", FW.hkey((S.key(spec), tuple(C.obs(o) for o in pool))))

    def on_error(hist, op, exc, pool, refs):
        m = menu_holder[0]
        args = {"spec": spec, "menu": menu_args(m), "history": [list(o) for o in hist + [op]]}
        acc.add(core.v_exc(PROP, "history", "operation %s raised" % op[0], exc, args,
                           {"history": X.show_history(hist + [op], m)}))

    st = X.bfs(spec, menu, H, P, on_state, on_error, max_states=None)
    # second search from a non-initial state: two independently built members, the second already filled
    menu2 = dict(menu, init=[("new",), ("fill", 1, len(menu["events"]) - 3), ("fill", 0, 0)])
    menu_holder[0] = menu2
    st2 = X.bfs(spec, menu2, 2, max(P, 3) if d <= 2 else 2, on_state, on_error, max_states=None)
    menu_holder[0] = menu
    acc.add(out)
    for s_ in (st, st2):
        acc.n("states", s_["states"])
        acc.n("transitions", s_["transitions"])
        acc.n("op_errors", s_["errors"])
        acc.c["max_depth"] = max(acc.c.get("max_depth", 0), s_["max_depth"])
    return menu, H, P


def _tree(task):
    spec, tier = task
    acc = FW.Acc()
    acc.n("trees")
    menu, H, P = explore_tree(spec, tier, acc)
    acc.sample({"tree": S.sid(spec), "H": H, "P": P,
                "example_history": [["fill", 0, core.compact(menu["events"][0][0], spec)], ["copy", 0], ["iadd", 1, 0],
                                    ["mul", 1, 0.5]]})
    return acc.freeze_sets()


# ------------------------------------------------------------------ part 2: configuration sweep
BIN_CFGS = [(2, 0.0, 2.0), (4, -1.0, 1.0), (3, 0.0, 3.0), (1, -1.0, 1.0), (10, 0.0, 1.0), (3, 0.0, 0.3),
            (3, 1 / 3, 2 / 3), (5, 5.0, 5.5), (40, 1e9, 1e9 + 1), (7, -0.7, 0.7), (6, 0.1, 0.7), (9, -1e-3, 1e-3),
            (3, -1e30, 1e30), (2, 1e-300, 3e-300), (12, 0.0, 1.2), (5, -2.5, 0.05)]
SPARSE_CFGS = [(1.0, 0.0), (0.5, -0.25), (0.1, 0.0), (1 / 3, 0.05), (0.7, -0.35), (1e-3, 1.0), (3.0, 1e9), (1e9, 0.5)]
CENTRAL_CFGS = [[0.0, 1.0, 3.0], [-0.1, 0.2, 0.7], [1 / 3, 2 / 3, 1.0], [1e9, 1e9 + 1, 1e9 + 3], [-1.0, 1.0],
                [3.0, 0.0, 1.0], [0.7, -0.1, 0.2]]
IRR_CFGS = [[0.0, 1.0], [-1.0, 0.5, 2.0], [0.1, 0.2, 0.3], [1 / 3, 2 / 3], [1e9, 1e9 + 1]]


def ulps(x, k=3):
    out = [x]
    lo = hi = x
    for _ in range(k):
        lo = math.nextafter(lo, -INF)
        hi = math.nextafter(hi, INF)
        out += [lo, hi]
    return out


def probes(edges):
    ps = []
    for e in edges:
        ps += ulps(e)
    for a, b in zip(edges[:-1], edges[1:]):
        ps.append((a + b) / 2)
    ps += [edges[0] - abs(edges[0]) - 1.0, edges[-1] + abs(edges[-1]) + 1.0, NAN, INF, -INF, 0.0, -0.0]
    return ps


def slots(h):
    """(name -> entries) of every direct sub-aggregator slot of a binning node."""
    t = h.name
    if t == "Bin":
        d = {"bin%d" % i: v.entries for i, v in enumerate(h.values)}
        d.update(underflow=h.underflow.entries, overflow=h.overflow.entries, nanflow=h.nanflow.entries)
        return d
    if t == "SparselyBin":
        d = {"bin%d" % k: v.entries for k, v in h.bins.items()}
        d["nanflow"] = h.nanflow.entries
        return d
    d = {"bin%d" % i: v.entries for i, (_, v) in enumerate(h.bins)}
    d["nanflow"] = h.nanflow.entries
    return d


def sweep_one(kind, cfg, x, path):
    """Fill one datum (weight 0.5) into a fresh aggregator: no exception, exactly one slot gets the weight."""
    import histogrammar as hg

    args = {"kind": kind, "cfg": [A.show(float(c)) if isinstance(c, float) else c for c in cfg], "x": A.show(x),
            "path": path}
    q = lambda d: d["x"]  # noqa: E731
    # a non-Count sub-aggregator forces the generic (masked) numpy path instead of np.histogram / np.unique
    val = hg.Sum(lambda d: d["x"]) if path.endswith("generic") else hg.Count()
    if kind == "Bin":
        h = hg.Bin(cfg[0], cfg[1], cfg[2], q, val)
    elif kind == "SparselyBin":
        h = hg.SparselyBin(cfg[0], q, val, origin=cfg[1])
    elif kind == "CentrallyBin":
        h = hg.CentrallyBin(list(cfg), q, val)
    elif kind == "IrregularlyBin":
        h = hg.IrregularlyBin(list(cfg), q, val)
    else:
        h = hg.Stack(list(cfg), q, val)
    w = 0.5
    try:
        if path.startswith("fill:"):
            h.fill({"x": as_type(x, path[5:])}, w)
        elif path in ("fill", "fill-generic"):
            h.fill({"x": x}, w)
        elif path == "numpy-fast":
            h.fill.numpy({"x": np.array([x, x])}, 1)
            w = 2.0
        else:
            h.fill.numpy({"x": np.array([x])}, np.array([w]))
    except Exception as e:
        return [core.v_exc(PROP, "sweep", "%s %s raised on a numeric datum" % (kind, path), e, args)]
    sl = slots(h)
    hit = {k: v for k, v in sl.items() if v != 0.0}
    out = []
    if kind == "Stack":
        lv = [v.entries for _, v in h.bins]
        ok = h.entries == w and all(a >= b for a, b in zip(lv[:-1], lv[1:])) and (
            (math.isnan(x) and h.nanflow.entries == w and lv[0] == 0.0) or
            (not math.isnan(x) and lv[0] == w and h.nanflow.entries == 0.0))
        if not ok:
            out.append(FW.violation(PROP, "sweep", "Stack %s" % path, "levels", args, {"slots": sl, "entries": h.entries}))
        return out
    if h.entries != w or len(hit) != 1 or list(hit.values())[0] != w:
        out.append(FW.violation(PROP, "sweep", "%s %s" % (kind, path),
                                "datum-in-%s-slots" % ("no" if not hit else ("%d" % len(hit))), args,
                                {"slots": hit, "entries": h.entries}))
        return out
    # where it landed must be consistent with the specified partition wherever arithmetic cannot blur it
    name = list(hit)[0]
    if path == "fill:numpy.float32":
        # NumPy compares a float32 scalar with the (Python float) edges in float32 precision: which side of an edge that
        # is not a float32 number the datum falls is not fixed by the property; only "exactly one slot" is asserted
        return out
    if math.isnan(x):
        exp = "nanflow"
    elif kind == "Bin":
        exp = "underflow" if x < cfg[1] else ("overflow" if x >= cfg[2] else None)
    else:
        exp = None
    if exp is not None and name != exp:
        out.append(FW.violation(PROP, "sweep", "%s %s" % (kind, path), "wrong-slot", args, {"got": name, "expected": exp}))
    if exp is None and kind == "Bin" and not name.startswith("bin"):
        out.append(FW.violation(PROP, "sweep", "%s %s" % (kind, path), "in-range-datum-in-flow", args, {"got": name}))
    return out


NUMERIC_TYPES = ("int", "bool", "numpy.float64", "numpy.float32", "numpy.int64", "Fraction")


def as_type(x, tname):
    """x as another numeric type with exactly the same value, or None where that type has no such value."""
    import fractions

    if tname == "numpy.float64":
        return np.float64(x)
    if tname == "numpy.float32":
        y = np.float32(x)
        return y if (math.isnan(x) or float(y) == x) else None
    if not math.isfinite(x):
        return None
    if tname == "Fraction":
        return fractions.Fraction(x)
    if x != int(x) or abs(x) >= 2 ** 62:
        return None
    if tname == "int":
        return int(x)
    if tname == "numpy.int64":
        return np.int64(int(x))
    if tname == "bool":
        return bool(x) if x in (0.0, 1.0) else None
    raise ValueError(tname)


def sweep_items():
    items = []
    for c in BIN_CFGS:
        n, lo, hi = c
        edges = [lo + i * (hi - lo) / n for i in range(n + 1)]
        items.append(("Bin", c, edges))
    for c in SPARSE_CFGS:
        bw, o = c
        items.append(("SparselyBin", c, [o + i * bw for i in (-2, -1, 0, 1, 2, 7)]))
    for c in CENTRAL_CFGS:
        cs = sorted(c)
        items.append(("CentrallyBin", c, sorted(set(cs + [(a + b) / 2 for a, b in zip(cs[:-1], cs[1:])]))))
    for c in IRR_CFGS:
        items.append(("IrregularlyBin", c, list(c)))
        items.append(("Stack", c, list(c)))
    return items


def _sweep(task):
    kind, cfg, edges = task
    acc = FW.Acc()
    for x in probes(edges):
        for path in ("fill", "numpy-fast", "numpy-weighted", "fill-generic", "numpy-generic"):
            acc.add(sweep_one(kind, cfg, x, path))
            acc.n("sweep_probes")
            acc.distinct("sweep", FW.hkey((kind, repr(cfg), repr(A.show(x)), path)))
        for tname in NUMERIC_TYPES:
            if as_type(x, tname) is None:
                continue
            acc.add(sweep_one(kind, cfg, x, "fill:" + tname))
            acc.n("sweep_probes")
            acc.n("sweep_probes_other_numeric_types")
    acc.n("sweep_configurations")
    return acc.freeze_sets()


def trees(tier):
    def ok(s):
        return not any(n.get("tr") for _, _, n in S.node_ids(s))

    t = [s for s in S.D1() + S.D2() if ok(s)]
    if tier == "quick":
        # one configuration per primitive at depth 2 keeps the quick tier short; thorough takes them all
        seen_types, keep = set(), []
        for s in t:
            k = (s["t"], s.get("range"), s.get("v", {}).get("t") if s["t"] in S.UNARY else tuple(c["t"] for c in (
                s["ch"].values() if isinstance(s["ch"], dict) else s["ch"])) if "ch" in s else None)
            if k in seen_types:
                continue
            seen_types.add(k)
            keep.append(s)
        t = keep + S.D3flow()[:8]
    else:
        t += S.D3_quick() + S.D3flow()
    t += [x for x in S.DX() if ok(x)]
    seen, out = set(), []
    for s in t:
        k = S.key(s)
        if k not in seen:
            seen.add(k)
            out.append(s)
    return out


def run(tier, seed):
    ts = trees(tier)
    tasks = [("tree", (t, tier)) for t in ts] + [("sweep", it) for it in sweep_items()]
    accs = FW.pmap(_dispatch, tasks, seed)
    acc = FW.Acc()
    for a in accs:
        acc.merge(a)
    cov = {
        "states": acc.c.get("states", 0),
        "transitions": acc.c.get("transitions", 0),
        "traces_validated_against_impl": acc.c.get("transitions", 0) + acc.c.get("sweep_probes", 0),
        "evaluations": acc.c.get("transitions", 0) + acc.c.get("sweep_probes", 0),
        "distinct_nontrivial": len(acc.sets.get("obs", ())) + len(acc.sets.get("sweep", ())),
        "rule": "(1) breadth-first search over operation histories on a pool of aggregators of one tree: fill, fill.numpy, "
                "+, +=, *, copy, zero, JSON reload, pickle clone; states = distinct object-graph digests of the pool; the "
                "invariant and the reference content are checked on every pool member in every state; (2) every bin "
                "configuration in the menus x every probe within +-3 ulps of every edge, bin midpoints, NaN, +-inf, +-0 x "
                "{fill, fill.numpy unit weights, fill.numpy weight array}: no exception, exactly one slot receives the weight",
        "exhaustive": True,
        "bounds": {"trees": len(ts), "H": "quick: 3 (depth<=2) / 2; thorough: 4 (leaves) / 3", "P": "quick: 3 (leaves) / 2; thorough: 3",
                   "sweep_configurations": len(sweep_items())},
        "max_depth": acc.c.get("max_depth", 0),
    }
    assumptions = ["trees with Count(transform) are excluded from the sum invariants (their entries are transformed weights)",
                   "a state reached through an operation that raised is examined with the invariant only"]
    return acc, cov, assumptions


def _dispatch(task):
    kind, payload = task
    return _tree(payload) if kind == "tree" else _sweep(payload)


def replay(driver, args):
    if driver == "sweep":
        cfg = [A.unshow(c) for c in args["cfg"]]
        return sweep_one(args["kind"], cfg, A.unshow(args["x"]), args["path"])
    spec = args["spec"]
    menu = menu_from_args(args["menu"])
    hist = [tuple(op) for op in args["history"]]
    out = []
    pool, refs = X.replay(spec, [], menu)
    check_state(spec, pool, refs, [], menu, out)
    if out:
        return out
    for n in range(len(hist)):
        try:
            X.apply_op(spec, pool, refs, hist[n], menu)
        except Exception as e:
            out.append(core.v_exc(PROP, "history", "operation %s raised" % hist[n][0], e, args))
            check_state(spec, pool, None, hist[: n + 1], menu, out)
            return out
        check_state(spec, pool, refs, hist[: n + 1], menu, out)
        if out:
            return out
    return out
