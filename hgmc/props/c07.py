"""C07 — in-place merge (+=) agrees with pure merge (+). DESIGN §3 C07."""
from .. import alphabet as A
from .. import canon as C
from .. import core
from .. import framework as FW
from .. import invariants as I
from .. import refmodel as R
from .. import spec as S

PROP = "C07"


def reordered(spec):
    """The same tree with the members of every keyed collection inserted in reverse order (same content)."""
    s = dict(spec)
    for k in ("v", "uf", "of", "nf"):
        if k in s:
            s[k] = reordered(s[k])
    if "ch" in s:
        if isinstance(s["ch"], dict):
            s["ch"] = {k: reordered(v) for k, v in reversed(list(s["ch"].items()))}
        else:
            s["ch"] = [reordered(v) for v in s["ch"]]
    return s


def has_keyed(spec):
    return any(n["t"] in ("Label", "UntypedLabel") for _, _, n in S.node_ids(spec))


def check_pair(spec, ha, hb, reload_b=False, reorder_b=False, reload_a=False):
    """One ordered pair of reachable states (given by their fill histories). Returns list of violations."""
    import histogrammar as hg

    args = {"spec": spec, "ha": core.show_evs(ha), "hb": core.show_evs(hb), "reload_b": reload_b, "reorder_b": reorder_b,
            "reload_a": reload_a}
    out = []
    drv = "iadd-reloaded" if reload_b else ("iadd-reordered-keys" if reorder_b else ("iadd-left-reloaded" if reload_a else "iadd"))
    a = core.mk(spec, ha)
    if reload_a:
        a = hg.Factory.fromJson(a.toJson())
    b = core.mk(reordered(spec) if reorder_b else spec, hb)
    if reload_b:
        b = hg.Factory.fromJson(b.toJson())
    b0 = b.toJson()
    a_id = id(a)
    try:
        pure = (hg.Factory.fromJson(core.mk(spec, ha).toJson()) if reload_a else core.mk(spec, ha)) + b
        pure_doc = pure.toJson()
    except Exception as e:
        return [core.v_exc(PROP, drv, "a+b raised", e, args)]
    try:
        a2 = a
        a2 += b
    except Exception as e:
        return [core.v_exc(PROP, drv, "a+=b raised", e, args)]
    if id(a2) != a_id:
        out.append(FW.violation(PROP, drv, spec["t"] + ".__iadd__", "result-is-not-left-operand", args, {}))
        return out
    adoc = a.toJson()
    d = C.diff(adoc, pure_doc)
    if d:
        out.append(core.v_diff(PROP, drv, "a+=b differs from a0+b", d, adoc, args))
    d = C.diff(adoc, R.ref_doc(spec, ha + hb))
    if d:
        out.append(core.v_diff(PROP, drv, "a+=b differs from reference union", d, adoc, args))
    d = C.diff(b.toJson(), b0)
    if d:
        out.append(core.v_diff(PROP, drv, "b changed by a+=b", d, b.toJson(), args))
    r = I.views(a)
    if r:
        out.append(FW.violation(PROP, drv, "%s after a+=b" % r[1], "handle-on-child-not-updated", args,
                                {"path": r[0], "message": r[2]}))
    if out or reload_a:
        return out
    if reload_b or reorder_b:
        # b cannot be filled (or is the same content in another order): a must still be a's own tree, fillable as before
        cont = [e for e in (list(hb) + list(ha)) if e[1] > 0][:3] or [(dict(A.DEFAULTS), 1.0)]
        try:
            for e in cont:
                a.fill(A.fresh(e[0]), e[1])
            d = C.diff(a.toJson(), R.ref_doc(spec, ha + hb + cont))
            if d:
                out.append(core.v_diff(PROP, drv, "a after a+=b and further fills differs from reference", d, a.toJson(), args))
            d = C.diff(b.toJson(), b0)
            if d:
                out.append(core.v_diff(PROP, drv, "b changed when a was filled after a+=b", d, b.toJson(), args))
        except Exception as e:
            out.append(core.v_exc(PROP, drv, "filling a after a+=b raised", e, args))
        return out
    # continuations: keep filling b, then a; neither may leak into the other
    cont, seen = [], set()
    for r, w in list(hb) + list(ha):
        k = repr((A.show(r), A.show(w)))
        if w > 0 and k not in seen:
            seen.add(k)
            cont.append((r, w))
    cont = cont[:3]
    if not cont:
        cont = [(dict(A.DEFAULTS), 1.0)]
    try:
        for e in cont:
            b.fill(A.fresh(e[0]), e[1])
        d = C.diff(a.toJson(), adoc)
        if d:
            out.append(core.v_diff(PROP, drv, "a changed when b was filled after a+=b", d, a.toJson(), args))
            return out
        bdoc = b.toJson()
        for e in cont:
            a.fill(A.fresh(e[0]), e[1])
        d = C.diff(b.toJson(), bdoc)
        if d:
            out.append(core.v_diff(PROP, drv, "b changed when a was filled after a+=b", d, b.toJson(), args))
            return out
        d = C.diff(a.toJson(), R.ref_doc(spec, ha + hb + cont))
        if d:
            out.append(core.v_diff(PROP, drv, "a after a+=b and further fills differs from reference", d, a.toJson(),
                                   args))
            return out
        d = C.diff(b.toJson(), R.ref_doc(spec, hb + cont))
        if d:
            out.append(core.v_diff(PROP, drv, "b after further fills differs from reference", d, b.toJson(), args))
            return out
        a += b
        d = C.diff(a.toJson(), R.ref_doc(spec, ha + hb + cont + hb + cont))
        if d:
            out.append(core.v_diff(PROP, drv, "second a+=b differs from reference", d, a.toJson(), args))
        r = I.views(a)
        if r:
            out.append(FW.violation(PROP, drv, "%s after fills and a second a+=b" % r[1], "handle-on-child-not-updated", args,
                                    {"path": r[0], "message": r[2]}))
    except Exception as e:
        out.append(core.v_exc(PROP, drv, "continuation raised", e, args))
    return out


def check_assembled(spec, ha, hb):
    """The right operand is a collection put together around children that were filled on their own (its own entries
    are still 0 while the children hold data): a += b must still be exactly a0 + b."""
    import histogrammar as hg

    args = {"spec": spec, "ha": core.show_evs(ha), "hb": core.show_evs(hb)}
    drv = "iadd-assembled"

    def assembled():
        ch = spec["ch"]
        if isinstance(ch, dict):
            return getattr(hg, spec["t"])(**{k: core.mk(c, hb) for k, c in ch.items()})
        return getattr(hg, spec["t"])(*[core.mk(c, hb) for c in ch])

    out = []
    try:
        a, b = core.mk(spec, ha), assembled()
        b0 = b.toJson()
        pure_doc = (core.mk(spec, ha) + assembled()).toJson()
        a2 = a
        a2 += b
        if a2 is not a:
            return [FW.violation(PROP, drv, spec["t"] + ".__iadd__", "result-is-not-left-operand", args, {})]
        d = C.diff(a.toJson(), pure_doc)
        if d:
            out.append(core.v_diff(PROP, drv, "a+=b differs from a0+b", d, a.toJson(), args))
        d = C.diff(b.toJson(), b0)
        if d:
            out.append(core.v_diff(PROP, drv, "b changed by a+=b", d, b.toJson(), args))
        # the children of b really were merged: every child of a now holds its own data plus b's child's
        exp_children = R.ref_doc(spec, ha + hb)["data"]["data"]
        got_children = a.toJson()["data"]["data"]
        d = C.diff(got_children, exp_children)
        if d:
            out.append(core.v_diff(PROP, drv, "children of a after a+=b differ from the reference union", d, a.toJson(), args))
    except Exception as e:
        out.append(core.v_exc(PROP, drv, "raised", e, args))
    return out


def _tree(task):
    spec, tier = task
    acc = FW.Acc()
    cap = 10 if tier == "quick" else 14
    evA = A.events(spec, "core", cap=cap, noop=False, weights=[1.0])
    evB = A.events(spec, "core", cap=cap, noop=False, weights=[1.0, 0.5])
    nA = 2
    nB = 1 if tier == "quick" else 2
    RA = core.reachable(spec, evA, nA, acc)
    RB = core.reachable(spec, evB, nB, acc)
    if tier != "quick" and S.depth(spec) >= 3:
        # depth-3 trees: bound B to <=1 fill
        RB = core.reachable(spec, evB, 1, acc)
    acc.n("trees")
    acc.n("states_A", len(RA))
    acc.n("states_B", len(RB))
    for ka, ha in RA.items():
        for kb, hb in RB.items():
            acc.n("pairs")
            if not ha or not hb:
                acc.n("pairs_with_empty_side")
            vs = check_pair(spec, ha, hb)
            acc.add(vs)
            acc.n("transitions", 3 + 2 * min(3, max(1, len(ha) + len(hb))))
            acc.distinct("outcomes", FW.hkey((S.key(spec), ka, kb)))
    # the right operand's keyed collections were built in another insertion order (same keys, same content)
    if has_keyed(spec):
        for ka, ha in RA.items():
            for kb, hb in RB.items():
                acc.n("pairs_reordered_keys")
                acc.add(check_pair(spec, ha, hb, reorder_b=True))
                acc.n("transitions", 2)
    if spec["t"] in ("Label", "UntypedLabel", "Index", "Branch"):
        for ka, ha in list(RA.items())[:: max(1, len(RA) // 8)]:
            for kb, hb in RB.items():
                acc.n("pairs_assembled")
                acc.add(check_assembled(spec, ha, hb))
                acc.n("transitions", 2)
    # right operand reloaded from JSON (what fillsparksql passes)
    for ka, ha in list(RA.items())[:: max(1, len(RA) // 12)]:
        for kb, hb in RB.items():
            acc.n("pairs_reloaded", 2)
            acc.add(check_pair(spec, ha, hb, reload_b=True))
            acc.add(check_pair(spec, ha, hb, reload_a=True))
            acc.n("transitions", 4)
    if len(acc.samples) < 1 and len(RA) > 1:
        ha = list(RA.values())[-1]
        hb = list(RB.values())[-1]
        acc.sample({"a": core.sample_hist(spec, ha), "b": core.sample_hist(spec, hb), "op": "a += b; fill b; fill a; a += b"})
    return acc.freeze_sets()


def trees(tier):
    t = S.D1() + S.D2() + S.DX()
    if tier != "quick":
        t += S.D3_quick() + S.D3flow()
    return t


def run(tier, seed):
    ts = trees(tier)
    accs = FW.pmap(_tree, [(t, tier) for t in ts], seed)
    acc = FW.Acc()
    for a in accs:
        acc.merge(a)
    states = acc.c.get("states_A", 0) + acc.c.get("states_B", 0)
    cov = {
        "states": states,
        "transitions": acc.c.get("transitions", 0) + acc.c.get("fill_sequences_executed", 0),
        "traces_validated_against_impl": acc.c.get("pairs", 0) + acc.c.get("pairs_reloaded", 0) + acc.c.get("pairs_reordered_keys", 0),
        "evaluations": acc.c.get("pairs", 0) + acc.c.get("pairs_reloaded", 0) + acc.c.get("pairs_reordered_keys", 0),
        "distinct_nontrivial": len(acc.sets.get("outcomes", ())),
        "rule": "per tree: A = all states after <=2 unit-weight fills, B = all states after <=%s fills with weights "
                "{1,0.5} over the tree's critical-value alphabet; every ordered pair (a,b) in AxB is executed on fresh "
                "objects; a pair is distinct by (tree, observable state of a, observable state of b)" %
                ("1" if tier == "quick" else "2 (1 for depth-3 trees)"),
        "exhaustive": True,
        "bounds": {"trees": len(ts), "tree_sets": "D1+D2" + ("" if tier == "quick" else "+D3quick+D3flow")},
    }
    assumptions = [
        "the real histogrammar objects are the transition system; reference = exact-rational multiset semantics (hgmc/refmodel.py)",
        "alphabet restricted to dyadic values, NaN, +-inf and each tree's bin edges; mean/variance compared with rel/abs 1e-9",
        "right operands reloaded from JSON: only content and non-interference are asserted, not fillability of adopted bins",
    ]
    return acc, cov, assumptions


def replay(driver, args):
    if driver == "iadd-assembled":
        return check_assembled(args["spec"], core.unshow_evs(args["ha"]), core.unshow_evs(args["hb"]))
    return check_pair(args["spec"], core.unshow_evs(args["ha"]), core.unshow_evs(args["hb"]), args.get("reload_b", False),
                      args.get("reorder_b", False), args.get("reload_a", False))
