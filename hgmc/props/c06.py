"""C06 — non-interference: operations never mutate operands or share mutable state. DESIGN §3 C06."""
import itertools

import numpy as np

from .. import alphabet as A
from .. import canon as C
from .. import core
from .. import framework as FW
from .. import spec as S

PROP = "C06"

ACCESSORS = ["bin_entries", "bin_edges", "bin_centers", "num_bins", "bin_width", "bin_labels", "histogram", "ascii"]
PROPS = ["mpv", "n_dim", "datatype", "size", "keys", "values", "children", "n_bins", "thresholds", "centers", "edges",
         "num", "low", "high", "minBin", "maxBin", "indexes", "keySet", "binsMap", "numFilled", "variance", "pairs",
         "centersSet", "name", "factory"]


def has_transform(spec):
    return any(n.get("tr") for _, _, n in S.node_ids(spec))


def pure_ops(spec):
    from histogrammar import defs

    ops = [("a+b", lambda a, b: [a + b]), ("b+a", lambda a, b: [b + a]),
           ("combine(a,b)", lambda a, b: [defs.combine(a, b)]), ("combine(b,a)", lambda a, b: [defs.combine(b, a)]),
           ("zero", lambda a, b: [a.zero()]), ("copy", lambda a, b: [a.copy()]),
           ("toJson", lambda a, b: [a.toJson(), a.toJsonString()]),
           ("eq/hash/repr", lambda a, b: [a == b, a != b, b == a, hash(a), repr(a), a == a.copy()]),
           ("accessors", accessors)]
    if not has_transform(spec):
        ops += [("a*0.5", lambda a, b: [a * 0.5]), ("2*a", lambda a, b: [2 * a]), ("a*0", lambda a, b: [a * 0]),
                ("a*1", lambda a, b: [a * 1.0]), ("1*a", lambda a, b: [1 * a])]
    return ops


def _dense_views_infeasible(a):
    """A SparselyBin whose filled indexes span an astronomic range (a datum at +-inf or 1e30 lands in a saturated index)
    cannot be asked for a dense view: bin_entries() / mpv would allocate one slot per index in between."""
    from ..invariants import _kids

    stack = [a]
    while stack:
        n = stack.pop()
        if n.name == "SparselyBin" and n.bins and max(n.bins) - min(n.bins) > 100000:
            return True
        stack.extend(k for _, k in _kids(n))
    return False


def accessors(a, b):
    import contextlib
    import io

    out = []
    dense_ok = not _dense_views_infeasible(a)
    for nm in ACCESSORS:
        if not dense_ok and nm in ("bin_entries", "bin_edges", "bin_centers", "ascii", "histogram"):
            continue
        try:
            f = getattr(a, nm, None)
        except Exception:
            f = None
        if callable(f):
            try:
                with contextlib.redirect_stdout(io.StringIO()):
                    out.append(f())
            except Exception:
                pass  # correctness of the views is C13's business; here only side effects matter
    for nm in PROPS:
        if not dense_ok and nm == "mpv":
            continue
        try:
            out.append(getattr(a, nm))
        except Exception:
            pass
    return out


def containers(results):
    from histogrammar.defs import Container

    return [r for r in results if isinstance(r, Container)]


def accessor_results(a, b):
    """Only histogram() promises a new object; children/values/keys are views of the tree by design."""
    try:
        return [a.histogram()]
    except Exception:
        return []


def check_pure(spec, ha, hb, opname, muts, reloaded=False, np0=False, named_b=False):
    """Apply one pure operation to fresh operands a, b; then every mutator to each returned container and to the
    operands; observable states of the untouched objects must not change. reloaded: the operands are JSON reloads
    (immutable form: they cannot be filled, but they can still be merged into in place)."""
    import histogrammar as hg

    args = {"spec": spec, "ha": core.show_evs(ha), "hb": core.show_evs(hb), "op": opname, "muts": core.show_evs(muts),
            "reloaded": reloaded, "np0": np0, "named_b": named_b}
    out = []
    op = dict(pure_ops(spec))[opname]

    def fresh():
        a, b = core.mk(spec, ha), core.mk(spec, hb)
        if named_b:
            # the same tree booked with named quantities (merging only compares the binning): a stays anonymous
            from .c11 import with_qk

            b = core.mk(with_qk(spec, "named"), hb)
        if np0:
            # a vectorised fill whose rows all have weight 0 adds nothing, but may book (empty) sparse bins / categories
            import numpy as np

            from .c03 import norm_rec, to_batch

            rows = [norm_rec(r) for r, _ in muts[:3]]
            for o in (a, b):
                o.fill.numpy(to_batch(rows), np.zeros(len(rows)))
        if reloaded:
            a, b = hg.Factory.fromJson(a.toJson()), hg.Factory.fromJson(b.toJson())
        return a, b, a.toJson(), b.toJson()

    a, b, da, db = fresh()
    try:
        res = op(a, b)
    except Exception as e:
        return [core.v_exc(PROP, "pure", "%s raised" % opname, e, args)]
    for nm, o, d0 in (("a", a, da), ("b", b, db)):
        d = C.diff(o.toJson(), d0, tol_keys=())
        if d:
            out.append(core.v_diff(PROP, "pure", "operand changed by %s" % opname, d, o.toJson(), args))
            return out
    if opname == "accessors":
        op = accessor_results
        res = op(a, b)
    nres = len(containers(res))
    # mutate the result, watch the operands
    mut_kinds = [("fill", m) for m in muts] + [("fillnp", None), ("iadd", None)]
    if opname == "accessors":
        mut_kinds = [("fill", m) for m in muts]
    if reloaded:
        mut_kinds = [("iadd", None)]
    for ri in range(nres):
        for mk, m in mut_kinds:
            a, b, da, db = fresh()
            try:
                r = containers(op(a, b))[ri]
                dr = r.toJson()
                if not mutate(spec, r, mk, m, muts):
                    continue
            except Leak as e:
                out.append(core.v_diff(PROP, "alias", "right operand of += changed when the merge target (result of %s) "
                                       "was mutated afterwards" % opname, e.d, e.doc, dict(args, mut=mk)))
                return out
            except Exception as e:
                out.append(core.v_exc(PROP, "pure", "mutating the result of %s raised" % opname, e, dict(args, mut=mk)))
                break
            for nm, o, d0 in (("a", a, da), ("b", b, db)):
                d = C.diff(o.toJson(), d0, tol_keys=())
                if d:
                    out.append(core.v_diff(PROP, "alias", "operand changed when the result of %s was mutated" % opname,
                                           d, o.toJson(), dict(args, mut=mk)))
                    return out
            # mutate the operands, watch the result
            a, b, da, db = fresh()
            try:
                r = containers(op(a, b))[ri]
                dr = r.toJson()
                mutate(spec, a, mk, m, muts)
                if ha != hb or True:
                    mutate(spec, b, mk, m, muts)
            except Leak as e:
                out.append(core.v_diff(PROP, "alias", "right operand of += changed when the merge target (an operand of %s) "
                                       "was mutated afterwards" % opname, e.d, e.doc, dict(args, mut=mk)))
                return out
            except Exception as e:
                out.append(core.v_exc(PROP, "pure", "mutating an operand after %s raised" % opname, e, dict(args, mut=mk)))
                break
            d = C.diff(r.toJson(), dr, tol_keys=())
            if d:
                out.append(core.v_diff(PROP, "alias", "result of %s changed when an operand was mutated" % opname, d,
                                       r.toJson(), dict(args, mut=mk)))
                return out
    return out


def mutate(spec, obj, kind, m, muts):
    """Apply one mutating event. Returns False if the mutation is not applicable."""
    if kind == "fill":
        obj.fill(A.fresh(m[0]), m[1])
        return True
    if kind == "fillnp":
        if not S.fields(spec):
            return False
        from .c03 import norm_rec, to_batch

        recs = [norm_rec(r) for r, _ in muts if not (r.get("c") is None or isinstance(r.get("c"), (bool, float)))]
        if not recs:
            return False
        obj.fill.numpy(to_batch(recs[:2]))
        return True
    if kind == "iadd":
        # merging INTO the object; afterwards the object is filled further and the merged-in operand must not change
        other = core.mk(spec, list(muts[:2]))
        obj += other
        d0 = other.toJson()
        try:
            for m in muts[:3]:
                obj.fill(A.fresh(m[0]), m[1])
        except TypeError:
            pass  # an immutable (reloaded) object cannot be filled; the in-place merge above is what matters then
        extra = core.mk(spec, list(muts[1:3]))
        obj += extra
        d = C.diff(other.toJson(), d0, tol_keys=())
        if d:
            raise Leak(d, other.toJson())
        return True
    raise ValueError(kind)


class Leak(Exception):
    """The right operand of an in-place merge changed when the merge target was mutated afterwards."""

    def __init__(self, d, doc):
        super().__init__("leak")
        self.d, self.doc = d, doc


# ------------------------------------------------------------------ independent construction
def _batch(recs):
    arr = np.zeros(len(recs), dtype=[("x", "f8"), ("y", "f8"), ("c", "U3"), ("s", "f8")])
    for i, r in enumerate(recs):
        arr[i] = (float(r["x"]), float(r["y"]), str(r["c"]), float(r["s"]))
    return arr.view(np.recarray)


def _events_for(kind):
    return [{"x": 0.5, "y": 1.0, "c": "a", "s": True}, {"x": 1.5, "y": 2.0, "c": "b", "s": True},
            {"x": float("nan"), "y": 0.5, "c": "a", "s": 0.5}, {"x": -1.0, "y": 0.5, "c": "a", "s": True}]


def constructors():
    """(name, thunk) pairs building an aggregator relying on default arguments wherever the signature has them."""
    import histogrammar as hg
    import histogrammar.convenience as CV

    qx = lambda: (lambda d: d["x"])  # noqa: E731
    qc = lambda: (lambda d: d["c"])  # noqa: E731
    qs = lambda: (lambda d: d["s"])  # noqa: E731
    out = [
        ("Select(q)", lambda: hg.Select(qs())),
        ("Select.ing(q)", lambda: hg.Select.ing(qs())),
        ("Bin(n,l,h,q)", lambda: hg.Bin(2, 0.0, 2.0, qx())),
        ("Bin.ing(n,l,h,q)", lambda: hg.Bin.ing(2, 0.0, 2.0, qx())),
        ("SparselyBin(w,q)", lambda: hg.SparselyBin(1.0, qx())),
        ("SparselyBin.ing(w,q)", lambda: hg.SparselyBin.ing(1.0, qx())),
        ("CentrallyBin(c,q)", lambda: hg.CentrallyBin([0.0, 1.0, 3.0], qx())),
        ("CentrallyBin.ing(c,q)", lambda: hg.CentrallyBin.ing([0.0, 1.0, 3.0], qx())),
        ("IrregularlyBin(e,q)", lambda: hg.IrregularlyBin([0.0, 1.0], qx())),
        ("IrregularlyBin.ing(e,q)", lambda: hg.IrregularlyBin.ing([0.0, 1.0], qx())),
        ("Stack(t,q)", lambda: hg.Stack([0.0, 1.0], qx())),
        ("Stack.ing(t,q)", lambda: hg.Stack.ing([0.0, 1.0], qx())),
        ("Categorize(q)", lambda: hg.Categorize(qc())),
        ("Categorize.ing(q)", lambda: hg.Categorize.ing(qc())),
        ("Fraction(q)", lambda: hg.Fraction(qs())),
        ("Fraction.ing(q)", lambda: hg.Fraction.ing(qs())),
        ("Histogram", lambda: CV.Histogram(2, 0.0, 2.0, qx())),
        ("HistogramCut", lambda: CV.HistogramCut(2, 0.0, 2.0, qx(), qs())),
        ("SparselyHistogram", lambda: CV.SparselyHistogram(1.0, qx())),
        ("CategorizeHistogram", lambda: CV.CategorizeHistogram(qc())),
        ("Count()", lambda: hg.Count()),
        ("Sum(q)", lambda: hg.Sum(qx())),
    ]
    return out


def check_constructor(name):
    args = {"constructor": name}
    thunk = dict(constructors())[name]
    out = []
    try:
        h1, h2 = thunk(), thunk()
        empty = h2.toJson()
        for r in _events_for(name):
            h1.fill(r)
        if name not in ("Count()",):
            h1.fill.numpy(_batch(_events_for(name)[:2]))
        d = C.diff(h2.toJson(), empty, tol_keys=())
        if d:
            out.append(core.v_diff(PROP, "construct", "second instance of %s changed when the first was filled" % name,
                                   d, h2.toJson(), args))
        h3 = thunk()
        d = C.diff(h3.toJson(), empty, tol_keys=())
        if d:
            out.append(core.v_diff(PROP, "construct", "a new %s is not empty after another instance was filled" % name,
                                   d, h3.toJson(), args))
    except Exception as e:
        out.append(core.v_exc(PROP, "construct", "%s raised" % name, e, args))
    return out


TEMPLATE_PARENTS = ["Bin", "Bin-flows", "SparselyBin", "CentrallyBin", "IrregularlyBin", "Stack", "Categorize", "Fraction"]


def check_template(parent):
    """Two parents created from one template: mutate one parent / the template, observe the others."""
    import histogrammar as hg

    args = {"template_parent": parent}
    out = []
    qx, qy, qc, qs = (lambda d: d["x"]), (lambda d: d["y"]), (lambda d: d["c"]), (lambda d: d["s"])
    for tname in ("Sum", "SparselyBin", "Categorize", "Bag"):
        def T():
            if tname == "Sum":
                return hg.Sum(qy)
            if tname == "SparselyBin":
                return hg.SparselyBin(1.0, qy)
            if tname == "Categorize":
                return hg.Categorize(qc)
            return hg.Bag(qy, "N")

        def P(t):
            if parent == "Bin":
                return hg.Bin(2, 0.0, 2.0, qx, t)
            if parent == "Bin-flows":
                return hg.Bin(2, 0.0, 2.0, qx, hg.Count(), t, t, t)
            if parent == "SparselyBin":
                return hg.SparselyBin(1.0, qx, t, t)
            if parent == "CentrallyBin":
                return hg.CentrallyBin([0.0, 1.0, 3.0], qx, t, t)
            if parent == "IrregularlyBin":
                return hg.IrregularlyBin([0.0, 1.0], qx, t, t)
            if parent == "Stack":
                return hg.Stack([0.0, 1.0], qx, t, t)
            if parent == "Categorize":
                return hg.Categorize(qc, t)
            return hg.Fraction(qs, t)

        a2 = dict(args, template=tname)
        try:
            t = T()
            p1, p2 = P(t), P(t)
            e1, et = p2.toJson(), t.toJson()
            for r in _events_for(parent):
                p1.fill(r)
            p1.fill.numpy(_batch(_events_for(parent)[:2]))
            for nm, o, d0 in (("second parent", p2, e1), ("template", t, et)):
                d = C.diff(o.toJson(), d0, tol_keys=())
                if d:
                    out.append(core.v_diff(PROP, "template", "%s of %s changed when the first parent was filled" % (
                        nm, parent), d, o.toJson(), a2))
            d1 = p1.toJson()
            for r in _events_for(parent):
                t.fill(r)
            for nm, o, d0 in (("first parent", p1, d1), ("second parent", p2, e1)):
                d = C.diff(o.toJson(), d0, tol_keys=())
                if d:
                    out.append(core.v_diff(PROP, "template", "%s of %s changed when the template was filled" % (
                        nm, parent), d, o.toJson(), a2))
            # derived objects of a parent built from a (now filled) template
            for nm, r in (("zero()", p1.zero()), ("copy()", p1.copy()), ("*2", p1 * 2), ("+", p1 + p2)):
                dr = r.toJson()
                for rec in _events_for(parent):
                    p1.fill(rec)
                    t.fill(rec)
                d = C.diff(r.toJson(), dr, tol_keys=())
                if d:
                    out.append(core.v_diff(PROP, "template", "%s of a %s changed when its source/template was filled"
                                           % (nm, parent), d, r.toJson(), a2))
                d1 = p1.toJson()
                for rec in _events_for(parent):
                    r.fill(rec)
                d = C.diff(p1.toJson(), d1, tol_keys=())
                if d:
                    out.append(core.v_diff(PROP, "template", "%s changed when its %s was filled" % (parent, nm), d,
                                           p1.toJson(), a2))
        except Exception as e:
            out.append(core.v_exc(PROP, "template", "%s over %s raised" % (parent, tname), e, a2))
    return out


DF_METHODS = ["hg_Select", "hg_Bin", "hg_SparselyBin", "hg_CentrallyBin", "hg_IrregularlyBin", "hg_Stack",
              "hg_Categorize", "hg_Fraction"]


def check_dfmethod(name):
    """pandas.DataFrame.hg_* wrappers relying on their default-argument aggregators."""
    import pandas as pd

    import histogrammar as hg  # noqa: F401  (registers the hg_ methods)

    args = {"df_method": name}
    out = []
    # (string columns break the pandas filler in this environment before any histogram logic runs: bool categories)
    df = pd.DataFrame({"x": [0.5, 1.5, 0.5], "s": [1.0, 1.0, 0.0], "c": [True, False, True]})
    qx, qs, qc = "x", "s", "c"
    call = {
        "hg_Select": lambda: df.hg_Select(qs),
        "hg_Bin": lambda: df.hg_Bin(2, 0.0, 2.0, qx),
        "hg_SparselyBin": lambda: df.hg_SparselyBin(1.0, qx),
        "hg_CentrallyBin": lambda: df.hg_CentrallyBin([0.0, 1.0, 3.0], qx),
        "hg_IrregularlyBin": lambda: df.hg_IrregularlyBin([0.0, 1.0], qx),
        "hg_Stack": lambda: df.hg_Stack([0.0, 1.0], qx),
        "hg_Categorize": lambda: df.hg_Categorize(qc),
        "hg_Fraction": lambda: df.hg_Fraction(qs),
    }[name]
    try:
        h1 = call()
        d1 = h1.toJson()
        h2 = call()
        d = C.diff(h2.toJson(), d1, tol_keys=())
        if d:
            out.append(core.v_diff(PROP, "dfmethod", "second %s call on the same frame differs from the first" % name, d,
                                   h2.toJson(), args))
        d = C.diff(h1.toJson(), d1, tol_keys=())
        if d:
            out.append(core.v_diff(PROP, "dfmethod", "result of first %s call changed by the second call" % name, d,
                                   h1.toJson(), args))
    except Exception as e:
        out.append(core.v_exc(PROP, "dfmethod", "%s raised" % name, e, args))
    return out


# ------------------------------------------------------------------ driver
def _tree(task):
    spec, tier = task
    acc = FW.Acc()
    acc.n("trees")
    d = S.depth(spec)
    cap = 4 if tier == "quick" else 5
    recs = A.records(spec, "core", cap=cap)
    evs = [(r, 1.0) for r in recs]
    n = 1 if (tier == "quick" or d >= 3) else 2
    Rs = core.reachable(spec, evs, n, acc)
    hists = list(Rs.values())
    if n == 2 and len(hists) > 12:
        hists = hists[:12]
    acc.n("states", len(hists))
    muts = evs[:3] if tier == "quick" else evs
    ops = [nm for nm, _ in pure_ops(spec)]
    sparse = any(n["t"] in ("Categorize", "SparselyBin") for _, _, n in S.node_ids(spec))
    for ha, hb in itertools.product(hists, hists):
        for opname in ops:
            if opname not in ("a+b", "b+a", "combine(a,b)", "combine(b,a)", "eq/hash/repr") and hb is not hists[0]:
                continue  # unary operations do not depend on b
            m = list(muts)
            for r, w in ha + hb:
                if (r, w) not in m:
                    m.append((r, w))
            acc.add(check_pure(spec, ha, hb, opname, m))
            acc.n("pure_op_cases")
            if opname in ("a+b", "zero", "copy", "a*0.5", "a*0", "a*1"):
                acc.add(check_pure(spec, ha, hb, opname, m, reloaded=True))
                acc.n("pure_op_cases")
                acc.n("pure_op_cases_on_reloaded_operands")
            if opname in ("a+b", "b+a", "combine(a,b)") and S.fields(spec) and not any(
                    n.get("qk") for _, _, n in S.node_ids(spec)) and ha is hists[-1]:
                acc.add(check_pure(spec, ha, hb, opname, m, named_b=True))
                acc.n("pure_op_cases")
                acc.n("pure_op_cases_with_named_right_operand")
            if sparse and S.fields(spec) and opname in ("a+b", "eq/hash/repr", "copy", "toJson", "accessors", "zero"):
                acc.add(check_pure(spec, ha, hb, opname, m, np0=True))
                acc.n("pure_op_cases")
                acc.n("pure_op_cases_after_zero_weight_batch")
            acc.n("transitions", 2 + 2 * (len(m) + 2))
            acc.distinct("cases", FW.hkey((S.key(spec), repr(core.show_evs(ha)), repr(core.show_evs(hb)), opname)))
    if len(hists) > 1:
        acc.sample({"a": core.sample_hist(spec, hists[-1]), "b": core.sample_hist(spec, hists[1]),
                    "ops": ops, "then": "every mutator (fills, fill.numpy, +=) on the result, then on the operands"})
    return acc.freeze_sets()


def bystander_loaders():
    """Documents whose loading must not touch unrelated live aggregators (name -> thunk giving the document)."""
    import histogrammar as hg
    from histogrammar.util import named

    pos = named("positive", lambda d: d > 0)
    val = named("value", lambda d: d)
    return {
        "Select": lambda: hg.Select(pos, hg.Sum(val)).toJson(),
        "Fraction": lambda: hg.Fraction(pos, hg.Sum(val)).toJson(),
        "Bin": lambda: hg.Bin(2, 0.0, 2.0, val, hg.Average(named("other", lambda d: d))).toJson(),
        "SparselyBin": lambda: hg.SparselyBin(1.0, val).toJson(),
        "CentrallyBin": lambda: hg.CentrallyBin([0.0, 1.0], val).toJson(),
        "IrregularlyBin": lambda: hg.IrregularlyBin([0.0, 1.0], val).toJson(),
        "Stack": lambda: hg.Stack([0.0, 1.0], val).toJson(),
        "Categorize": lambda: hg.Categorize(named("cat", lambda d: str(d))).toJson(),
        "Label": lambda: hg.Label(a=hg.Sum(val), b=hg.Sum(pos)).toJson(),
        "UntypedLabel": lambda: hg.UntypedLabel(a=hg.Sum(val), b=hg.Minimize(pos)).toJson(),
        "Index": lambda: hg.Index(hg.Sum(val), hg.Sum(pos)).toJson(),
        "Branch": lambda: hg.Branch(hg.Sum(val), hg.Deviate(pos)).toJson(),
        "Bag": lambda: hg.Bag(val, "N").toJson(),
        "Minimize": lambda: hg.Minimize(val).toJson(),
    }


def check_bystanders(name):
    """fromJson / toImmutable of one aggregator leaves every other live aggregator exactly as it was - in particular
    those built with default arguments, which all start from the same module-level default objects."""
    import histogrammar as hg

    args = {"bystander_loader": name}
    out = []
    try:
        doc = bystander_loaders()[name]()
        live = {"Sum()": hg.Sum(), "Average()": hg.Average(), "Bin(2,0,2)": hg.Bin(2, 0.0, 2.0), "SparselyBin(1)": hg.SparselyBin(1.0),
                "Select(cut=Count())": hg.Select(lambda d: d > 0), "Categorize()": hg.Categorize(), "Bag(range='N')": hg.Bag(range="N"),
                "Label(a=Sum())": hg.Label(a=hg.Sum(), b=hg.Sum())}
        for k, o in live.items():
            o.fill("one" if k == "Categorize()" else 1.0)
        before = {k: (o.toJson(), repr(o.quantity.name) if hasattr(o, "quantity") else None) for k, o in live.items()}
        r1 = hg.Factory.fromJson(doc)
        r2 = hg.Factory.fromJson(doc)
        for k, o in live.items():
            d = C.diff(o.toJson(), before[k][0], tol_keys=())
            if d:
                out.append(core.v_diff(PROP, "bystander", "live %s changed when a %s document was loaded" % (k, name), d,
                                       o.toJson(), args))
        # the two reloads are independent objects too
        if hasattr(r1, "quantity") and r1.quantity is r2.quantity and r1.quantity is not None:
            out.append(FW.violation(PROP, "bystander", "two reloads of a %s document" % name, "share-their-quantity-object", args, {}))
    except Exception as e:
        out.append(core.v_exc(PROP, "bystander", "raised", e, args))
    return out


def _misc(task):
    kind, name = task
    acc = FW.Acc()
    if kind == "bystander":
        acc.add(check_bystanders(name))
    elif kind == "constructor":
        acc.add(check_constructor(name))
    elif kind == "template":
        acc.add(check_template(name))
    else:
        acc.add(check_dfmethod(name))
    acc.n("construction_cases")
    acc.distinct("cases", FW.hkey((kind, name)))
    return acc.freeze_sets()


def _dispatch(task):
    return _tree(task[1]) if task[0] == "tree" else _misc(task[1])


def trees(tier):
    t = S.D1() + S.D2()
    t += S.D3flow()[:10]
    if tier != "quick":
        t += S.D3_quick() + S.D3flow() + S.D3()
    t += S.DX()
    seen, out = set(), []
    for s in t:
        k = S.key(s)
        if k not in seen:
            seen.add(k)
            out.append(s)
    return out


def run(tier, seed):
    ts = trees(tier)
    tasks = [("tree", (t, tier)) for t in ts]
    tasks += [("misc", ("constructor", n)) for n, _ in constructors()]
    tasks += [("misc", ("bystander", n)) for n in bystander_loaders()]
    tasks += [("misc", ("template", n)) for n in TEMPLATE_PARENTS]
    tasks += [("misc", ("dfmethod", n)) for n in DF_METHODS]
    accs = FW.pmap(_dispatch, tasks, seed)
    acc = FW.Acc()
    for a in accs:
        acc.merge(a)
    ev = acc.c.get("pure_op_cases", 0) + acc.c.get("construction_cases", 0)
    cov = {
        "states": acc.c.get("states", 0),
        "transitions": acc.c.get("transitions", 0) + acc.c.get("fill_sequences_executed", 0),
        "traces_validated_against_impl": ev,
        "evaluations": ev,
        "distinct_nontrivial": len(acc.sets.get("cases", ())),
        "rule": "per tree: all ordered pairs (a,b) of the states reachable by <=n fills x every pure operation (a+b, b+a, "
                "a*f, f*a, a*0, zero, copy, toJson, ==/!=/hash/repr, every read accessor): operands unchanged; then for "
                "every returned aggregator x every mutator (each fill event incl. those of a and b, a numpy batch, += a "
                "fresh state): mutate the result -> operands unchanged; mutate the operands -> result unchanged; plus "
                "every constructor relying on default arguments, every template-taking parent x 4 templates, and the "
                "pandas hg_* wrappers: two instances / two calls never influence each other",
        "exhaustive": True,
        "bounds": {"trees": len(ts), "n": "1 (quick, depth 3) / 2"},
    }
    assumptions = ["the oracle is behavioural (toJson before/after), never object identity",
                   "Select(q, h) stores the caller's h by design (it is the child, not a template): not asserted here"]
    return acc, cov, assumptions


def replay(driver, args):
    if "bystander_loader" in args:
        return check_bystanders(args["bystander_loader"])
    if "constructor" in args:
        return check_constructor(args["constructor"])
    if "template_parent" in args:
        return check_template(args["template_parent"])
    if "df_method" in args:
        return check_dfmethod(args["df_method"])
    return check_pure(args["spec"], core.unshow_evs(args["ha"]), core.unshow_evs(args["hb"]), args["op"],
                      core.unshow_evs(args["muts"]), args.get("reloaded", False), args.get("np0", False),
                      args.get("named_b", False))
