"""C11 — pickling preserves content, equality and fillability. DESIGN §3 C11."""
import itertools
import json
import pickle

import numpy as np

from .. import alphabet as A
from .. import canon as C
from .. import core
from .. import explorer as X
from .. import framework as FW
from .. import refmodel as R
from .. import spec as S
from .c05 import menu_args, menu_from_args

PROP = "C11"
QKINDS = ["lambda", "def", "str", "named", "cached", "named_cached", "lambda_default", "named_def", "cached_named_def"]


def with_qk(spec, qk):
    """Same tree with every quantity of kind qk."""
    s = dict(spec)
    if "q" in s:
        s["qk"] = qk
    for k in ("v", "uf", "of", "nf"):
        if k in s:
            s[k] = with_qk(s[k], qk)
    if "ch" in s:
        if isinstance(s["ch"], dict):
            s["ch"] = {k: with_qk(v, qk) for k, v in s["ch"].items()}
        else:
            s["ch"] = [with_qk(v, qk) for v in s["ch"]]
    return s


def has_transform(spec):
    return any(n.get("tr") for _, _, n in S.node_ids(spec))


def continuations(spec, menu, fillable):
    """Every continuation of <= 2 events: fill events, a numpy batch, += a state."""
    evs = []
    if fillable:
        evs += [("fill", e) for e in menu["events"][:3]]
        if S.fields(spec):
            evs.append(("fillnp", None))
            evs.append(("fillnp-scalar", None))
    if fillable and _all_string_quantities(spec) and len(S.fields(spec)) == 1:
        # string expressions also accept a record of another shape: the bare value of their only variable, or an object
        # with attributes (what the quantity computes must not depend on what the wrapper saw before it was pickled)
        evs.append(("fill-bare", menu["events"][1 % len(menu["events"])]))
        evs.append(("fill-attr", menu["events"][0]))
    evs.append(("iadd", None))
    if not has_transform(spec):
        evs.append(("mul", 0.5))  # (whatever can be done with the original can be done with the clone)
    out = [()]
    out += [(e,) for e in evs]
    out += list(itertools.product(evs, repeat=2))
    return out


class _Rec:
    pass


def _all_string_quantities(spec):
    qs = [n.get("qk") for _, _, n in S.node_ids(spec) if "q" in n]
    return bool(qs) and all(q == "str" for q in qs)


def apply_cont(spec, obj, evs_ref, step, menu):
    k, e = step
    if k == "mul":
        evs_ref[:] = R.scale_events(evs_ref, e)
        return obj * e
    if k in ("fill-bare", "fill-attr"):
        (field,) = S.fields(spec)
        if k == "fill-bare":
            obj.fill(A.fresh(e[0])[field], e[1])
        else:
            r = _Rec()
            r.__dict__.update(A.fresh(e[0]))
            obj.fill(r, e[1])
        evs_ref.append(e)
    elif k == "fill":
        obj.fill(A.fresh(e[0]), e[1])
        evs_ref.append(e)
    elif k == "fillnp-scalar":
        from .c03 import norm_rec, numpy_alphabet, to_batch

        recs = [norm_rec(r) for r in numpy_alphabet(spec, "core", 3)]
        obj.fill.numpy(to_batch(recs))  # default scalar weight: nodes that cannot see the arrays rely on the row count
        evs_ref.extend(zip(recs, [1.0] * len(recs)))
    elif k == "fillnp":
        from .c03 import norm_rec, numpy_alphabet, to_batch

        recs = [norm_rec(r) for r in numpy_alphabet(spec, "core", 2)]
        obj.fill.numpy(to_batch(recs), np.array([1.0, 0.5][: len(recs)]))
        evs_ref.extend(zip(recs, [1.0, 0.5]))
    else:
        other = core.mk(spec, menu["events"][:2])
        obj += other
        evs_ref.extend(menu["events"][:2])
    return obj


def check_member(spec, build_member, evs, fillable, args, menu, tier):
    """build_member() -> a fresh live copy of the aggregator to pickle (rebuilt for every continuation)."""
    out = []
    h = build_member()
    try:
        d0 = h.toJson()
        g0 = C.digest(h, strict=False)
        blob = pickle.dumps(h)
        c = pickle.loads(blob)
    except Exception as e:
        return [core.v_exc(PROP, "pickle", "pickle round trip raised", e, args)]
    try:
        if not (c == h) or not (h == c) or (c != h):
            out.append(FW.violation(PROP, "pickle", "%s clone != original" % h.name, "not-equal", args, {}))
        d = C.diff(c.toJson(), d0, tol_keys=())
        if d:
            out.append(core.v_diff(PROP, "pickle", "clone serialises differently from the original", d, c.toJson(), args))
        d = C.diff(h.toJson(), d0, tol_keys=())
        if d or C.digest(h, strict=False) != g0:
            out.append(FW.violation(PROP, "pickle", "%s original changed by pickling" % h.name, "changed", args,
                                    {"diff": d}))
        c2 = pickle.loads(pickle.dumps(c))
        d = C.diff(c2.toJson(), d0, tol_keys=())
        if d:
            out.append(core.v_diff(PROP, "pickle", "second-generation clone differs", d, c2.toJson(), args))
    except Exception as e:
        out.append(core.v_exc(PROP, "pickle", "comparing clone and original raised", e, args))
    if out:
        return out
    conts = continuations(spec, menu, fillable)
    if tier == "quick":
        conts = [c_ for c_ in conts if len(c_) <= 1] + [c_ for c_ in conts if len(c_) == 2][:6]
    for cont in conts:
        ca = dict(args, cont=[[k, (e if k == "mul" else core.show_evs([e])[0]) if e else None] for k, e in cont])
        try:
            h = build_member()
            c = pickle.loads(pickle.dumps(h))
            ref_h, ref_c = list(evs), list(evs)
            for step in cont:
                h = apply_cont(spec, h, ref_h, step, menu)
                c = apply_cont(spec, c, ref_c, step, menu)
            dh, dc = h.toJson(), c.toJson()
        except Exception as e:
            # decide whether the original alone also fails (then it is not a pickling problem)
            try:
                h2 = build_member()
                r2 = list(evs)
                for step in cont:
                    h2 = apply_cont(spec, h2, r2, step, menu)
            except Exception:
                continue
            out.append(core.v_exc(PROP, "continue", "continuation raised on the clone but not on the original", e, ca))
            return out
        d = C.diff(dc, dh, tol_keys=())
        if d:
            out.append(core.v_diff(PROP, "continue", "clone and original diverge under identical further operations", d,
                                   dc, ca))
            return out
        try:
            if not (c == h):
                out.append(FW.violation(PROP, "continue", "%s clone != original after identical operations" % h.name,
                                        "not-equal", ca, {}))
                return out
        except Exception as e:
            out.append(core.v_exc(PROP, "continue", "== raised", e, ca))
            return out
        d = C.diff(dh, R.ref_doc(spec, ref_h), prune_zero=True)
        if d and not any(k.startswith("fillnp") for k, _ in cont):
            pass  # content vs reference is C02/C05's business; bisimulation above is the C11 oracle
    return out


def check_built(spec, ha, hb):
    """Containers assembled from separately aggregated pieces (Stack.build, Fraction.build), alone and as a member of an
    UntypedLabel: the clone equals the original and merges exactly like it."""
    import histogrammar as hg

    args = {"spec": spec, "ha": core.show_evs(ha), "hb": core.show_evs(hb)}
    out = []

    def make():
        st = hg.Stack.build(core.mk(spec, ha), core.mk(spec, hb))
        fr = hg.Fraction.build(core.mk(spec, ha), core.mk(spec, hb))
        return [("Stack.build", st), ("Fraction.build", fr),
                ("UntypedLabel of Stack.build and Fraction.build", hg.UntypedLabel(s=st, f=fr))]

    try:
        for (nm, o), (_, o2) in zip(make(), make()):
            d0 = o.toJson()
            c = pickle.loads(pickle.dumps(o))
            if not (c == o) or not (o == c) or (c != o) or (o != c):
                out.append(FW.violation(PROP, "built", "clone of %s != original" % nm, "not-equal", args, {}))
            d = C.diff(c.toJson(), d0, tol_keys=())
            if d:
                out.append(core.v_diff(PROP, "built", "clone of %s serialises differently" % nm, d, c.toJson(), args))
            want = (o + o2).toJson()
            for what, f in (("clone+clone", lambda: c + c), ("original+clone", lambda: o + c), ("clone+original", lambda: c + o)):
                try:
                    m = f()
                except Exception as e:
                    out.append(core.v_exc(PROP, "built", "%s of %s raised (original + an equal original does not)" % (what, nm),
                                          e, args))
                    continue
                d = C.diff(m.toJson(), want, tol_keys=())
                if d:
                    out.append(core.v_diff(PROP, "built", "%s of %s differs from original+original" % (what, nm), d, m.toJson(),
                                           args))
                elif what == "clone+clone" and not (m == o + o2):
                    out.append(FW.violation(PROP, "built", "clone+clone of %s != original+original" % nm, "not-equal", args, {}))
            d = C.diff(o.toJson(), d0, tol_keys=())
            if d:
                out.append(core.v_diff(PROP, "built", "%s changed by pickling / merging with its clone" % nm, d, o.toJson(), args))
    except Exception as e:
        out.append(core.v_exc(PROP, "built", "pickling an assembled container raised", e, args))
    return out


BOOL_ROUTES = ("live", "new += reload", "live += reload", "copy of (reload + live)")
BOOL_VALUES = ("Count", "Sum")
BOOL_CONTS = ("row True", "row False", "numpy", "numpy w=array", "numpy w=2.0")


def check_bool_lineage(route, value, conts):
    """A Categorize over a boolean string expression: JSON books the categories True/False under their names, so a live
    aggregator merged with a reload carries string keys. Clone and original must still book further bool data - row by
    row and vectorised - into the same categories (bisimulation), whatever the lineage of the bins."""
    import numpy as np

    import histogrammar as hg

    args = {"route": route, "value": value, "conts": list(conts)}
    rows = [{"s": 1.0, "y": 0.5}, {"s": -1.0, "y": 2.0}, {"s": 1.0, "y": 1.0}]

    def mk():
        return hg.Categorize("s > 0", hg.Count() if value == "Count" else hg.Sum("y"))

    def build():
        a = mk()
        for r in rows:
            a.fill(dict(r))
        if route == "live":
            return a
        r = hg.Factory.fromJson(json.loads(json.dumps(a.toJson())))
        if route == "new += reload":
            g = mk()
            g += r
            return g
        if route == "live += reload":
            a += r
            return a
        return (r + a).copy()

    def cont(h, c):
        if c.startswith("row"):
            h.fill({"s": 1.0 if c == "row True" else -1.0, "y": 0.25})
            return
        data = {"s": np.array([1.0, -1.0, 2.0]), "y": np.array([0.5, 0.25, 4.0])}
        if c == "numpy":
            h.fill.numpy(data)
        elif c == "numpy w=array":
            h.fill.numpy(data, np.array([1.0, 0.5, 2.0]))
        else:
            h.fill.numpy(data, 2.0)

    out = []
    try:
        h = build()
        d0 = h.toJson()
        c = pickle.loads(pickle.dumps(h))
        if not (c == h) or (c != h) or C.diff(c.toJson(), d0, tol_keys=()):
            return [FW.violation(PROP, "bool-lineage", "clone of a Categorize over a bool expression (%s)" % route, "not-equal",
                                 args, {})]
        if C.diff(h.toJson(), d0, tol_keys=()):
            return [FW.violation(PROP, "bool-lineage", "original changed by pickling (%s)" % route, "changed", args, {})]
    except Exception as e:
        return [core.v_exc(PROP, "bool-lineage", "building / pickling raised", e, args)]
    for step, k in enumerate(conts):
        ro = rc = None
        try:
            cont(h, k)
        except Exception as e:
            ro = e
        try:
            cont(c, k)
        except Exception as e:
            rc = e
        if (ro is None) != (rc is None):
            return [core.v_exc(PROP, "bool-lineage", "continuation raised on %s only" % ("the original" if ro else "the clone"),
                               ro or rc, args, {"step": step})]
        if ro is not None:
            return out  # (both refuse: whether such a state can be filled at all is not C11's business)
        d = C.diff(c.toJson(), h.toJson(), tol_keys=())
        if d:
            return [core.v_diff(PROP, "bool-lineage", "clone and original differ after the same continuation", d, c.toJson(),
                                args, {"step": step})]
        if not (c == h) or (c != h):
            return [FW.violation(PROP, "bool-lineage", "clone != original after the same continuation", "not-equal", args,
                                 {"step": step})]
    return out


def _bool(task):
    acc = FW.Acc()
    for route, value in itertools.product(BOOL_ROUTES, BOOL_VALUES):
        for n in (1, 2):
            for conts in itertools.product(BOOL_CONTS, repeat=n):
                acc.add(check_bool_lineage(route, value, conts))
                acc.n("bool_lineage_cases")
                acc.n("clones_checked")
    return acc.freeze_sets()


def default_quantity_cases():
    """Aggregators built WITHOUT a quantity argument (the library's default: the datum itself), in every position where
    a node writes its own name: root, collection member, Select cut, flow slot."""
    import histogrammar as hg

    leaves = {"Sum": hg.Sum, "Average": hg.Average, "Deviate": hg.Deviate, "Minimize": hg.Minimize, "Maximize": hg.Maximize}
    out = {}
    for nm, L in leaves.items():
        out[nm + "()"] = lambda L=L: L()
        out["Label(a=%s(), b=%s())" % (nm, nm)] = lambda L=L: hg.Label(a=L(), b=L())
        out["Branch(Count(), %s())" % nm] = lambda L=L: hg.Branch(hg.Count(), L())
        out["Select(cut=%s())" % nm] = lambda L=L: hg.Select(lambda d: d > 0, L())
        out["Bin(.., nanflow=%s())" % nm] = lambda L=L: hg.Bin(2, 0.0, 2.0, lambda d: d, hg.Count(), hg.Count(), hg.Count(), L())
        out["Bin(2,0,2, value=%s())" % nm] = lambda L=L: hg.Bin(2, 0.0, 2.0, value=L())
    out["Bin(2,0,2)"] = lambda: hg.Bin(2, 0.0, 2.0)
    out["SparselyBin(1.0)"] = lambda: hg.SparselyBin(1.0)
    out["CentrallyBin([0,1,3])"] = lambda: hg.CentrallyBin([0.0, 1.0, 3.0])
    out["IrregularlyBin([0,1])"] = lambda: hg.IrregularlyBin([0.0, 1.0])
    out["Stack([0,1])"] = lambda: hg.Stack([0.0, 1.0])
    out["Bag(range='N')"] = lambda: hg.Bag(range="N")
    return out


def check_default_quantity(name, data):
    args = {"case": name, "data": [A.show(x) for x in data]}
    out = []
    try:
        mk_ = default_quantity_cases()[name]
        h = mk_()
        for x in data:
            h.fill(x)
        d0 = h.toJson()
        c = pickle.loads(pickle.dumps(h))
        if not (c == h) or not (h == c) or (c != h):
            out.append(FW.violation(PROP, "defaults", "clone of %s != original" % name, "not-equal", args, {}))
        d = C.diff(c.toJson(), d0, tol_keys=())
        if d:
            out.append(core.v_diff(PROP, "defaults", "clone of an aggregator with the default quantity serialises differently", d,
                                   c.toJson(), args))
        for x in (1.5, float("nan"), -0.5):
            h.fill(x)
            c.fill(x)
        d = C.diff(c.toJson(), h.toJson(), tol_keys=())
        if d:
            out.append(core.v_diff(PROP, "defaults", "clone and original diverge under identical fills (default quantity)", d,
                                   c.toJson(), args))
        for nm, f in (("zero()", lambda o: o.zero()), ("copy()", lambda o: o.copy()), ("o+o", lambda o: o + o)):
            d = C.diff(f(c).toJson(), f(h).toJson(), tol_keys=())
            if d:
                out.append(core.v_diff(PROP, "defaults", "%s of clone and of original differ (default quantity)" % nm, d,
                                       f(c).toJson(), args))
    except Exception as e:
        out.append(core.v_exc(PROP, "defaults", "raised", e, args))
    return out


def _defaults(task):
    acc = FW.Acc()
    for name in default_quantity_cases():
        for data in ([], [0.5], [0.5, 1.5, float("nan")], [-1.0, 3.0]):
            acc.add(check_default_quantity(name, data))
            acc.n("default_quantity_cases")
            acc.n("clones_checked")
    return acc.freeze_sets()


def _dispatch(task):
    if task[0] == "bool-lineage":
        return _bool(task)
    return _defaults(task) if task[0] == "defaults" else _tree(task)


def make_menu(spec, tier):
    recs = A.records(spec, "core", cap=4)
    events = [(r, 1.0) for r in recs] + [(recs[0], 0.5)]
    kinds = ["fill", "add", "json"]
    if not has_transform(spec):
        kinds.append("mul")
    return {"events": events, "factors": [0.5], "kinds": kinds}


def _tree(task):
    spec, tier = task
    acc = FW.Acc()
    acc.n("trees")
    menu = make_menu(spec, tier)
    H = 2
    P = 2 if tier == "quick" else 3
    seen_obs = set()

    def on_state(pool, refs, hist):
        if refs is None:
            return
        for i, o in enumerate(pool):
            k = (C.obs(o), refs[i].fillable)
            if k in seen_obs:
                continue
            seen_obs.add(k)
            args = {"spec": spec, "menu": menu_args(menu), "history": [list(op) for op in hist], "member": i}

            def build_member(hist=hist, i=i):
                p, _ = X.replay(spec, hist, menu)
                return p[i]

            acc.add(check_member(spec, build_member, refs[i].evs, refs[i].fillable, args, menu, tier))
            acc.n("clones_checked")
            acc.distinct("states", FW.hkey((S.key(spec), k)))
            if not refs[i].fillable:
                acc.n("clones_of_reloaded_states")

    def on_error(hist, op, exc, pool, refs):
        pass

    st = X.bfs(spec, menu, H, P, on_state, on_error)
    if not has_transform(spec):
        hs = [[], [menu["events"][0]], [menu["events"][1 % len(menu["events"])], menu["events"][-1]]]
        for ha, hb in itertools.product(hs, hs):
            acc.add(check_built(spec, ha, hb))
            acc.n("assembled_containers_checked", 3)
            acc.n("clones_checked", 3)
    acc.n("states", st["states"])
    acc.n("transitions", st["transitions"])
    acc.sample({"tree": S.sid(spec), "history": X.show_history([("fill", 0, 0), ("json", 0)], menu),
                "then": "clone = loads(dumps(h)); every continuation of <=2 of {fill events, numpy batch, += state} on both"})
    return acc.freeze_sets()


def trees(tier):
    base = S.D1() + [s for s in S.D2()]
    if tier == "quick":
        # one representative per (root type, child type) with lambdas, every tree type with each other quantity kind
        seen_t, keep = set(), []
        for s in base:
            k = (s["t"], s.get("range"), s.get("v", {}).get("t") if "v" in s else None)
            if k not in seen_t:
                seen_t.add(k)
                keep.append(s)
        base = keep
    out = list(base)
    reps = []
    seen_t = set()
    for s in S.D1() + S.D2() + S.D3_quick()[:6]:
        k = s["t"] if s["t"] not in S.UNARY else (s["t"], s["v"]["t"] in ("Count",))
        if k not in seen_t and S.fields(s):
            seen_t.add(k)
            reps.append(s)
    for qk in QKINDS[1:]:
        out += [with_qk(s, qk) for s in reps]
    if tier != "quick":
        out += S.D3_quick() + S.D3flow()
    out += S.DX()
    seen, res = set(), []
    for s in out:
        k = S.key(s)
        if k not in seen:
            seen.add(k)
            res.append(s)
    return res


def run(tier, seed):
    ts = trees(tier)
    accs = FW.pmap(_dispatch, [(t, tier) for t in ts] + [("defaults", tier), ("bool-lineage", tier)], seed)
    acc = FW.Acc()
    for a in accs:
        acc.merge(a)
    cov = {
        "states": acc.c.get("states", 0),
        "transitions": acc.c.get("transitions", 0),
        "traces_validated_against_impl": acc.c.get("clones_checked", 0),
        "evaluations": acc.c.get("clones_checked", 0),
        "distinct_nontrivial": len(acc.sets.get("states", ())),
        "rule": "per tree x quantity kind {lambda, def, string, named, cached, named+cached}: breadth-first search over "
                "histories of fill, +, JSON reload and * on a pool; for every distinct (observable state, fillable?) of "
                "every pool member: clone = loads(dumps(h)) must equal h, serialise identically, leave h's object graph "
                "unchanged, survive a second generation; then every continuation of <=2 events from {3 fill events, a "
                "weighted numpy batch, += a state} applied to clone and original must keep them identical and ==; containers "
                "assembled by Stack.build / Fraction.build from 3x3 pairs of states (alone and inside an UntypedLabel): clone "
                "== original, clone+clone / original+clone == original+original; Categorize over a boolean expression x 4 lineages "
                "(live, new += reload, live += reload, copy of reload + live) x {Count, Sum}: every continuation of <=2 of {row True, "
                "row False, numpy batch with no / array / scalar weight} on clone and original",
        "exhaustive": True,
        "bounds": {"trees": len(ts), "H": 2, "P": "2 (quick) / 3"},
    }
    assumptions = ["bisimulation oracle: clone and original under identical operations; absolute content is C02/C05's business",
                   "lambdas are closure-free (the library documents that only self-contained functions are picklable)"]
    return acc, cov, assumptions


def replay(driver, args):
    if driver == "bool-lineage":
        return check_bool_lineage(args["route"], args["value"], tuple(args["conts"]))
    spec = args["spec"]
    if driver == "defaults":
        return check_default_quantity(args["case"], [A.unshow(x) for x in args["data"]])
    if driver == "built":
        return check_built(spec, core.unshow_evs(args["ha"]), core.unshow_evs(args["hb"]))
    menu = menu_from_args(args["menu"])
    hist = [tuple(op) for op in args["history"]]
    i = args["member"]
    _, refs = X.replay(spec, hist, menu)

    def build_member():
        p, _ = X.replay(spec, hist, menu)
        return p[i]

    return check_member(spec, build_member, refs[i].evs, refs[i].fillable, args, menu, "thorough")
