"""C09 — equality is exactly equality of aggregated content. DESIGN §3 C09."""
import itertools
import pickle

from .. import alphabet as A
from .. import canon as C
from .. import core
from .. import framework as FW
from .. import neighbours as NB
from .. import spec as S

PROP = "C09"


def set_tol(rel, abs_):
    import histogrammar.util as U

    U.relativeTolerance, U.absoluteTolerance = rel, abs_


def eq_checks(a, b, na, nb, args, drv, same_obj=False):
    """a == b must imply identical nameless content; symmetric; != is the negation. na/nb: nameless norms."""
    out = []
    try:
        ab = a == b
        ba = b == a
        ne = a != b
    except Exception as e:
        return [core.v_exc(PROP, drv, "== raised between two aggregators", e, args)]
    if bool(ab) != bool(ba):
        out.append(FW.violation(PROP, drv, "%s vs %s" % (type(a).__name__, type(b).__name__), "asymmetric", args,
                                {"a==b": bool(ab), "b==a": bool(ba)}))
    if bool(ne) == bool(ab):
        out.append(FW.violation(PROP, drv, type(a).__name__ + ".__ne__", "ne-not-negation", args, {}))
    if ab and na != nb:
        d = C.diff(a.toJson(), b.toJson(), tol_keys=(), drop_names=True)
        locus = FW.doc_locus(a.toJson(), d[0]) if d else type(a).__name__
        out.append(FW.violation(PROP, drv, "equal-but-different:" + locus, d[1] if d else "differs", args,
                                {"path": d[0] if d else None, "a": d[2] if d else None, "b": d[3] if d else None}))
    if (not ab) and na == nb and same_obj:
        out.append(FW.violation(PROP, drv, type(a).__name__ + ".__eq__", "not-reflexive", args, {}))
    return out


def check_tree_pairs(spec, hists, acc):
    """(i) all pairs of reachable states of one tree + (iii) reflexive cases."""
    import histogrammar as hg

    objs = [core.mk(spec, h) for h in hists]
    docs = [o.toJson() for o in objs]
    norms = [C.norm(d, drop_names=True) for d in docs]
    for i, j in itertools.product(range(len(objs)), repeat=2):
        args = {"spec": spec, "ha": core.show_evs(hists[i]), "hb": core.show_evs(hists[j])}
        set_tol(0.0, 0.0)
        vs = eq_checks(objs[i], objs[j], norms[i], norms[j], args, "pairs", same_obj=(i == j))
        acc.add(vs)
        acc.n("pairs")
        if norms[i] == norms[j]:
            acc.n("pairs_equal_content")
        else:
            acc.n("pairs_different_content")
            acc.distinct("pairs", FW.hkey((S.key(spec), i, j)))
        if not vs:
            # positive tolerances only widen
            try:
                e0 = objs[i] == objs[j]
                set_tol(1e-12, 1e-12)
                e1 = objs[i] == objs[j]
                if e0 and not e1:
                    acc.add(FW.violation(PROP, "tolerance", type(objs[i]).__name__ + ".__eq__",
                                         "tolerance-narrows", args, {}))
            except Exception as e:
                acc.add(core.v_exc(PROP, "tolerance", "== raised with tolerances", e, args))
            finally:
                set_tol(0.0, 0.0)
    # reflexive family
    for i, o in enumerate(objs):
        args = {"spec": spec, "ha": core.show_evs(hists[i]), "hb": core.show_evs(hists[i])}
        for rel, ab in ((0.0, 0.0), (1e-12, 0.0), (0.0, 1e-12)):
            set_tol(rel, ab)
            try:
                fam = [("itself", o, o), ("copy()", o, o.copy()), ("pickle clone", o, pickle.loads(pickle.dumps(o))),
                       ("a + a.zero()", o, o + o.zero()), ("copy() of copy()", o.copy(), o.copy().copy())]
                if not any(n.get("tr") for _, _, n in S.node_ids(spec)):
                    fam.append(("a * 1", o, o * 1))
                if any(n["t"] in ("Label", "UntypedLabel") for _, _, n in S.node_ids(spec)):
                    from .c07 import reordered

                    fam.append(("the same tree with members named in the opposite order", o, core.mk(reordered(spec), hists[i])))
                # the same content reached through in-place merges (asserted only where the documents are identical)
                z, c, c2 = o.zero(), o.copy(), o.copy()
                z += o
                c += o.zero()
                c2 += o
                for nm_, x_, y_ in (("zero() += a", o, z), ("copy() += zero()", o, c), ("copy() += a vs a + a", o + o, c2),
                                    ("zero() += a vs its copy()", z, z.copy())):
                    if C.norm(x_.toJson()) == C.norm(y_.toJson()):
                        fam.append((nm_, x_, y_))
                im = hg.Factory.fromJson(docs[i])
                fam.append(("JSON reload vs JSON reload", im, hg.Factory.fromJson(docs[i])))
                fam.append(("JSON reload vs its copy()", im, im.copy()))
                fam.append(("toImmutable() vs JSON reload", o.toImmutable(), im))
                if isinstance(docs[i]["data"], dict) and "entries" in docs[i]["data"]:
                    # a document whose entries are NaN (an aggregator scaled by / filled with non-finite weights) still
                    # describes one content: its two reloads are equal, and != stays the negation of ==
                    nd = dict(docs[i], data=dict(docs[i]["data"], entries="nan"))
                    fam.append(("two reloads of a document with NaN entries", hg.Factory.fromJson(nd), hg.Factory.fromJson(nd)))
                for nm, x, y in fam:
                    acc.n("reflexive_checks")
                    if not (x == y) or not (y == x) or (x != y):
                        acc.add(FW.violation(PROP, "reflexive", "%s:%s" % (nm, type(o).__name__),
                                             "not-equal(rel=%g,abs=%g)" % (rel, ab), dict(args, case=nm, rel=rel, abs=ab), {}))
            except Exception as e:
                acc.add(core.v_exc(PROP, "reflexive", "raised", e, dict(args, rel=rel, abs=ab)))
            finally:
                set_tol(0.0, 0.0)
        d = C.diff(o.toJson(), docs[i], tol_keys=())
        if d:
            acc.add(core.v_diff(PROP, "pairs", "operand changed by ==/copy/pickle", d, o.toJson(), args))


def check_rounding_pair(spec, ha, hb):
    """Two states whose numbers differ only by rounding (weights 0.1+0.2 against 0.3): under every tolerance ==
    is symmetric, != is its negation, and a positive tolerance never turns an equal pair into an unequal one."""
    args = {"spec": spec, "ha": core.show_evs(ha), "hb": core.show_evs(hb)}
    out = []
    try:
        a, b = core.mk(spec, ha), core.mk(spec, hb)
        prev = None
        for step, (rel, ab) in enumerate(((0.0, 0.0), (1e-12, 0.0), (0.0, 1e-12), (1e-6, 1e-6), (0.0, 0.0))):
            set_tol(rel, ab)
            eq, qe, ne, en = a == b, b == a, a != b, b != a
            if step == 4:
                # back at zero tolerance: the verdict is a function of the two aggregators and the tolerance in force
                if bool(eq) != prev:
                    out.append(FW.violation(PROP, "rounding", type(a).__name__ + ".__eq__",
                                            "verdict-at-zero-tolerance-depends-on-earlier-comparisons", args,
                                            {"first": prev, "after_comparing_under_tolerances": bool(eq)}))
                break
            if bool(eq) != bool(qe):
                out.append(FW.violation(PROP, "rounding", type(a).__name__ + ".__eq__", "asymmetric(rel=%g,abs=%g)" % (rel, ab), args, {}))
            if bool(ne) == bool(eq) or bool(en) == bool(qe):
                out.append(FW.violation(PROP, "rounding", type(a).__name__ + ".__ne__", "ne-not-negation(rel=%g,abs=%g)" % (rel, ab),
                                        args, {"==": bool(eq), "!=": bool(ne)}))
            if rel == 0.0 and ab == 0.0:
                prev = bool(eq)
            elif prev and not eq:
                out.append(FW.violation(PROP, "rounding", type(a).__name__ + ".__eq__", "tolerance-narrows", args, {}))
    except Exception as e:
        out.append(core.v_exc(PROP, "rounding", "== raised", e, args))
    finally:
        set_tol(0.0, 0.0)
    return out


def check_tolerant_first(spec, ha, hb):
    """The same kind of pair, but compared under a positive tolerance *first* and at zero tolerance afterwards: at zero
    tolerance a == b still implies identical content (the verdict follows the tolerance in force when it is made)."""
    args = {"spec": spec, "ha": core.show_evs(ha), "hb": core.show_evs(hb)}
    out = []
    try:
        a, b = core.mk(spec, ha), core.mk(spec, hb)
        na, nb = C.norm(a.toJson(), drop_names=True), C.norm(b.toJson(), drop_names=True)
        set_tol(1e-6, 1e-6)
        wide = bool(a == b)
        set_tol(0.0, 0.0)
        for v in eq_checks(a, b, na, nb, args, "tolerant-first"):
            v["detail"]["equal_under_tolerance_1e-6_before"] = wide
            out.append(v)
    except Exception as e:
        out.append(core.v_exc(PROP, "tolerant-first", "== raised", e, args))
    finally:
        set_tol(0.0, 0.0)
    return out


def check_neighbour(spec, nspec, label, hist):
    """(ii) a structural neighbour in the same fill state must never compare equal."""
    args = {"spec": spec, "nspec": nspec, "label": label, "hist": core.show_evs(hist)}
    out = []
    try:
        a = core.mk(spec, hist)
    except Exception:
        return []
    try:
        b = core.mk(nspec, hist)
    except Exception:
        try:
            b = core.mk(nspec, [])
        except Exception:
            return []
    na, nb = C.norm(a.toJson(), drop_names=True), C.norm(b.toJson(), drop_names=True)
    set_tol(0.0, 0.0)
    for v in eq_checks(a, b, na, nb, args, "neighbour"):
        # root cause = the changed parameter
        v["sig"] = "%s|neighbour|%s|%s" % (PROP, label, v["sig"].split("|")[-1])
        out.append(v)
    return out


def _tree(task):
    spec, tier = task
    acc = FW.Acc()
    acc.n("trees")
    d = S.depth(spec)
    cap = 8 if tier == "quick" else 12
    n = 2
    evs = A.events(spec, "core", cap=cap, noop=False, weights=[1.0, 0.5])
    if d >= 3 or tier == "quick":
        evs = A.events(spec, "core", cap=6, noop=False, weights=[1.0, 0.5])
    Rs = core.reachable(spec, evs, n, acc)
    hists = list(Rs.values())
    if tier == "quick" and len(hists) > 40:
        hists = hists[:40]
    elif len(hists) > 90:
        hists = hists[:90]
    acc.n("states", len(hists))
    check_tree_pairs(spec, hists, acc)
    recs = A.records(spec, "core", cap=3)
    for r1, r2 in itertools.product(recs, recs):
        for ha, hb in (([(r1, 0.1), (r1, 0.2)], [(r1, 0.3)]), ([(r1, 0.1), (r2, 0.2)], [(r2, 0.2), (r1, 0.1)]),
                       ([(r1, 0.1), (r1, 0.2), (r2, 0.3)], [(r2, 0.3), (r1, 0.3)])):
            acc.add(check_rounding_pair(spec, ha, hb))
            acc.n("rounding_pairs")
        for ha, hb in (([(r1, 0.1), (r1, 0.7)], [(r1, 0.8)]), ([(r1, 0.7), (r2, 0.1), (r1, 0.1)], [(r2, 0.1), (r1, 0.8)])):
            acc.add(check_tolerant_first(spec, ha, hb))
            acc.n("rounding_pairs")
    if "c" in S.fields(spec):
        # a bool category and the string of the same name are two categories in memory (one name in JSON): == must at
        # least be symmetric, and != its negation, whichever side holds which
        rb, rs = dict(recs[0], c=True), dict(recs[0], c="True")
        for ha, hb in (([(rb, 1.0)], [(rs, 1.0)]), ([(rs, 1.0)], [(rb, 1.0)]), ([(rb, 1.0), (rs, 0.5)], [(rs, 1.0), (rb, 0.5)])):
            a_, b_ = core.mk(spec, ha), core.mk(spec, hb)
            args = {"spec": spec, "ha": core.show_evs(ha), "hb": core.show_evs(hb)}
            acc.add(eq_checks(a_, b_, ("a",), ("a",), args, "pairs"))
            acc.n("pairs")
    nbs = NB.valid_neighbours(spec)
    few = [[]] + [h for h in hists if len(h) == 1][:3] + [h for h in hists if len(h) == 2][:2]
    for label, dd, ns in nbs:
        for h in few:
            acc.add(check_neighbour(spec, ns, label, h))
            acc.n("neighbour_checks")
            acc.distinct("neighbours", FW.hkey((S.key(spec), S.key(ns), len(h))))
    if len(hists) > 2:
        acc.sample({"a": core.sample_hist(spec, hists[1]), "b": core.sample_hist(spec, hists[2]),
                    "oracle": "a == b implies identical toJson() up to names"})
    if nbs:
        acc.sample({"tree": S.sid(spec), "neighbour": S.sid(nbs[0][2]), "changed": nbs[0][0]})
    return acc.freeze_sets()


def trees(tier):
    t = S.D1() + S.D2()
    t += S.D3flow()
    if tier != "quick":
        t += S.D3_quick() + S.D3()
    t += S.DX() + S.NEST2()
    # quantities with a default argument that is only equal to itself by identity
    from .c11 import with_qk

    t += [with_qk(x, "lambda_default") for x in S.D1() if "q" in x and not x.get("tr")]
    t += [with_qk({"t": "Bin", "p": S.BIN_CFG[0], "q": "x", "v": {"t": "Sum", "q": "y"}}, "lambda_default"),
          with_qk({"t": "Label", "ch": {"a": {"t": "Sum", "q": "x"}, "b": {"t": "Sum", "q": "y"}}}, "lambda_default")]
    seen, out = set(), []
    for s in t:
        k = S.key(s)
        if k not in seen:
            seen.add(k)
            out.append(s)
    return out


def run(tier, seed):
    ts = trees(tier)
    accs = FW.pmap(_tree, [(t, tier) for t in ts], seed)
    set_tol(0.0, 0.0)
    acc = FW.Acc()
    for a in accs:
        acc.merge(a)
    ev = acc.c.get("pairs", 0) + acc.c.get("neighbour_checks", 0) + acc.c.get("reflexive_checks", 0) + acc.c.get("rounding_pairs", 0)
    cov = {
        "states": acc.c.get("states", 0),
        "transitions": ev + acc.c.get("fill_sequences_executed", 0),
        "traces_validated_against_impl": ev,
        "evaluations": ev,
        "distinct_nontrivial": len(acc.sets.get("pairs", ())) + len(acc.sets.get("neighbours", ())),
        "rule": "per tree: all ordered pairs of the states reachable by <=2 fills (weights {1,0.5}); every structural "
                "neighbour (one parameter / key / member / child type changed at any depth) in empty and filled states; "
                "reflexive family (itself, copy, copy of copy, pickle clone, a+zero, a*1, zero()+=a, copy()+=zero(), copy()+=a vs a+a "
                "where the documents are identical, JSON reload, reloads of a document with NaN entries) under tolerances (0,0),(1e-12,0),(0,1e-12); pairs of states that differ only by rounding (weights "
                "0.1+0.2 vs 0.3) under four tolerances: symmetry, != negation, widening; "
                "distinct = pairs with different content + (tree, neighbour, state)",
        "exhaustive": True,
        "bounds": {"trees": len(ts)},
    }
    assumptions = ["content = toJson() with name keys dropped, compared bit-exactly (NaN equals NaN)",
                   "only soundness of == (equal implies same content) and reflexive cases are asserted"]
    return acc, cov, assumptions


def replay(driver, args):
    spec = args["spec"]
    if driver == "tolerant-first":
        return check_tolerant_first(spec, core.unshow_evs(args["ha"]), core.unshow_evs(args["hb"]))
    if driver == "rounding":
        return check_rounding_pair(spec, core.unshow_evs(args["ha"]), core.unshow_evs(args["hb"]))
    if driver == "neighbour":
        return check_neighbour(spec, args["nspec"], args["label"], core.unshow_evs(args["hist"]))
    acc = FW.Acc()
    ha, hb = core.unshow_evs(args["ha"]), core.unshow_evs(args["hb"])
    hs = [ha] if ha == hb else [ha, hb]
    check_tree_pairs(spec, hs, acc)
    return list(acc.viol.values())
